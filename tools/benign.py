"""Run every claimed check on every behaviour-preserving variant; list checks that fire."""
import json, os, sys
sys.path.insert(0, os.path.dirname(os.path.dirname(os.path.abspath(__file__))))
from concurrent.futures import ProcessPoolExecutor
from mxsa import rules
from mxsa.index import Repo, AnalysisError
from mxsa.framework import Ctx, run_rules
from mxsa.selftest import build_overlay
from mxsa.benign import VARIANTS
mods = rules.load()
PROPS = [p for p in rules.PROPS if p in mods]

def base_keys():
    ctx = Ctx()
    out = {}
    for p in PROPS:
        res, errs = run_rules(ctx, p)
        out[p] = ({f.key for r in res for f in r.findings}, errs)
    return out

def one(i):
    m = VARIANTS[i]
    try:
        ov = build_overlay(Repo(), m)
    except AnalysisError as e:
        return (m.id, "stale", str(e))
    ctx = Ctx(repo=Repo(overlay=ov))
    fired = {}
    for p in PROPS:
        res, errs = run_rules(ctx, p)
        new = sorted({f.key for r in res for f in r.findings} - BASE[p][0])
        newerr = [e for e in errs if e not in BASE[p][1]]
        if new or newerr:
            fired[p] = [k[0] + " " + k[1] for k in new] + ["ERR " + e[:120] for e in newerr]
            if VERBOSE:
                for r in res:
                    for f in r.findings:
                        if f.key in new:
                            print("   ", m.id, f.rule, f.loc, f.msg)
    return (m.id, "fired" if fired else "silent", fired)

VERBOSE = len(sys.argv) > 1
BASE = base_keys()
if __name__ == "__main__":
    sel = [i for i, m in enumerate(VARIANTS) if not VERBOSE or m.id in sys.argv[1:]]
    with ProcessPoolExecutor(16) as ex:
        out = list(ex.map(one, sel))
    n_f = 0
    for mid, st, info in out:
        if st != "silent":
            n_f += st == "fired"
            print(mid, st, json.dumps(info)[:400])
    print("%d variants, %d fired, %d stale" % (len(out), n_f, sum(1 for o in out if o[1] == "stale")))
