"""seed_import.py <src dir> <k> <seed id> <property> : copy a sub-agent seed into /verif/seeded/<id>/,
verify it (demo both ways, baseline suite with the change) and record which checks catch it."""
import json, os, shutil, subprocess, sys
src, k, sid, prop = sys.argv[1:5]
dst = "/verif/seeded/%s" % sid
os.makedirs(dst, exist_ok=True)
shutil.copy(os.path.join(src, "patch%s.diff" % k), os.path.join(dst, "patch.diff"))
shutil.copy(os.path.join(src, "demo%s.py" % k), os.path.join(dst, "demo.py"))
notes = os.path.join(src, "notes%s.md" % k)
if os.path.exists(notes):
    shutil.copy(notes, os.path.join(dst, "notes.md"))
p = subprocess.run(["/venv/bin/python", "/verif/tools/seedcheck.py", os.path.join(dst, "patch.diff"),
                    os.path.join(dst, "demo.py"), "--suite"], capture_output=True, text=True)
try:
    res = json.loads(p.stdout)
except Exception:
    print(p.stdout, p.stderr); sys.exit(2)
needs = ""
if os.path.exists(notes):
    needs = open(notes).read()[:1500]
meta = {
    "id": sid,
    "breaks_property": prop,
    "origin": "fresh sub-agent given only the property text and a scratch worktree",
    "needs_to_manifest": needs,
    "verified_by_me": {
        "demo_exit_on_unchanged_repo": res.get("demo_clean_exit"),
        "demo_exit_with_patch": res.get("demo_patched_exit"),
        "demo_output_with_patch": res.get("demo_patched_tail"),
        "baseline_suite_with_patch": res.get("suite"),
        "commands": ["git -C /repo apply /verif/seeded/%s/patch.diff" % sid,
                     "PYTHONPATH=/repo /venv/bin/python /verif/seeded/%s/demo.py" % sid,
                     "/venv/bin/python /verif/tools/baseline.py",
                     "/venv/bin/python /verif/check.py <every claimed property> --tier quick --no-write",
                     "git -C /repo checkout -- ."],
    },
    "checks_firing": res.get("checks_firing"),
    "caught_by_claimed_property_check": prop in (res.get("checks_firing") or {}) and
        (res["checks_firing"][prop].get("exit") == 1),
    "error": res.get("error"),
}
json.dump(meta, open(os.path.join(dst, "meta.json"), "w"), indent=1)
print(sid, "demo", meta["verified_by_me"]["demo_exit_on_unchanged_repo"], meta["verified_by_me"]["demo_exit_with_patch"],
      "suite", (res.get("suite") or ["?"])[0], "caught:", {k: v["exit"] for k, v in (res.get("checks_firing") or {}).items()}, meta["error"] or "")
