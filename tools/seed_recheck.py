"""Re-verify every seeded change against the current /repo and refresh meta.json."""
import json, os, subprocess, sys
suite = "--suite" in sys.argv
base = "/verif/seeded"
for sid in sorted(os.listdir(base)):
    d = os.path.join(base, sid)
    if not os.path.isdir(d):
        continue
    args = ["/venv/bin/python", "/verif/tools/seedcheck.py", d + "/patch.diff", d + "/demo.py"] + (["--suite"] if suite else [])
    p = subprocess.run(args, capture_output=True, text=True)
    try:
        res = json.loads(p.stdout)
    except Exception:
        print(sid, "ERROR", p.stdout[-300:], p.stderr[-300:]); continue
    meta = json.load(open(d + "/meta.json"))
    prop = meta["breaks_property"]
    if res.get("error"):
        print("%-36s PATCH DOES NOT APPLY" % sid); meta["error"] = res["error"]
    else:
        meta["error"] = None
        meta["verified_by_me"]["demo_exit_on_unchanged_repo"] = res["demo_clean_exit"]
        meta["verified_by_me"]["demo_exit_with_patch"] = res["demo_patched_exit"]
        meta["verified_by_me"]["demo_output_with_patch"] = res["demo_patched_tail"]
        if suite:
            meta["verified_by_me"]["baseline_suite_with_patch"] = res.get("suite")
        meta["checks_firing"] = res["checks_firing"]
        meta["caught_by_claimed_property_check"] = prop in res["checks_firing"] and res["checks_firing"][prop]["exit"] == 1
        print("%-36s demo %s/%s caught=%s %s" % (sid, res["demo_clean_exit"], res["demo_patched_exit"],
              {k: v["exit"] for k, v in res["checks_firing"].items()},
              "" if meta["caught_by_claimed_property_check"] else "<<< NOT CAUGHT BY " + prop))
    json.dump(meta, open(d + "/meta.json", "w"), indent=1)
