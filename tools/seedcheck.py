"""Verify a seeded change and run all checks against it.

usage: seedcheck.py <patch.diff> <demo.py> [--suite]
 1. demo on the unchanged /repo must exit 0
 2. git -C /repo apply patch; demo must exit != 0; (optional) baseline suite must still pass
 3. every claimed check (quick, --no-write) is run; properties that report a VIOLATION are listed
 4. git -C /repo checkout -- .   (always)
"""
import json, os, subprocess, sys
patch, demo = sys.argv[1], sys.argv[2]
suite = "--suite" in sys.argv
def run(cmd, **kw):
    return subprocess.run(cmd, capture_output=True, text=True, **kw)
assert run(["git", "-C", "/repo", "status", "--porcelain", "--untracked-files=no"]).stdout.strip() == "", "/repo not clean"
env = dict(os.environ, PYTHONPATH="/repo")
out = {"patch": patch}
p = run(["/venv/bin/python", demo], env=env, cwd="/tmp")
out["demo_clean_exit"] = p.returncode
a = run(["git", "-C", "/repo", "apply", patch])
if a.returncode:
    print(json.dumps(dict(out, error="patch does not apply: " + a.stderr[:300]), indent=1)); sys.exit(2)
try:
    p = run(["/venv/bin/python", demo], env=env, cwd="/tmp")
    out["demo_patched_exit"] = p.returncode
    out["demo_patched_tail"] = (p.stdout + p.stderr).strip().splitlines()[-3:]
    if suite:
        b = run(["/venv/bin/python", "/verif/tools/baseline.py"])
        out["suite"] = b.stdout.strip().splitlines()[:6]
    man = json.load(open("/verif/MANIFEST.json"))
    hits = {}
    for c in man["checks"]:
        r = run(c["quick_cmd"].split() + ["--no-write"], cwd="/verif")
        lines = [l.strip() for l in r.stdout.splitlines() if l.startswith("  modelx/") or l.startswith("ANALYSIS-ERROR")]
        if r.returncode:
            hits[c["property_id"]] = {"exit": r.returncode, "reports": lines[:6]}
    out["checks_firing"] = hits
finally:
    run(["git", "-C", "/repo", "checkout", "--", "."])
print(json.dumps(out, indent=1))
