"""Print the seeded-changes table of DESIGN.md section 10 from the meta.json files."""
import glob, json
rows = []
n_first = n = 0
for f in sorted(glob.glob("/verif/seeded/*/meta.json")):
    d = json.load(open(f))
    fire = d.get("checks_firing") or {}
    props = sorted(k for k, v in fire.items() if v.get("exit") == 1)
    import re
    rules = sorted({m for k, v in fire.items() for r in (v.get("reports") or []) for m in re.findall(r"\bC\d\d\.R\d+\b", r)})
    h = d.get("history")
    n += 1
    n_first += 0 if h and ("MISSED" in h or "only" in h.split(";")[0] and "ANALYSIS" in h or "As first written caught by C05" in h or "as first written caught by" in h or "ANALYSIS-ERROR" in h or "same change" in h) else 1
    rows.append("| %s | %s | %s | %s | %s |" % (d["id"], d["breaks_property"], ", ".join(props), ", ".join(rules),
                                              "yes" if not h else "no: " + h if ("MISSED" in h or "ANALYSIS" in h or "same change" in h or "As first written caught by C05" in h or "as first written caught by" in h or "ANALYSIS-ERROR" in h) else "yes (" + h + ")"))
print("| seed | breaks | checks that fire | rules | caught as first written? |\n|---|---|---|---|---|")
print("\n".join(rows))
print("\n%d seeds, %d caught by the claimed property's check as first written" % (n, n_first))
