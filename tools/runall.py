"""Run every claimed check (quick or thorough) in parallel; print one line per property."""
import json, subprocess, sys, os
from concurrent.futures import ThreadPoolExecutor
tier = sys.argv[1] if len(sys.argv) > 1 else "quick"
extra = sys.argv[2:]
man = json.load(open(os.path.join(os.path.dirname(__file__), "..", "MANIFEST.json")))
def run(c):
    cmd = c["quick_cmd"] if tier == "quick" else c["thorough_cmd"]
    p = subprocess.run(cmd.split() + extra, capture_output=True, text=True, cwd="/verif")
    lines = [l for l in p.stdout.splitlines() if l.startswith(("VIOLATION", "ANALYSIS-ERROR", "KNOWN-FINDING", "  self-test", "property="))
             or (l.startswith("  modelx/") )]
    return c["property_id"], p.returncode, lines
with ThreadPoolExecutor(4 if tier == "thorough" else 8) as ex:
    res = list(ex.map(run, man["checks"]))
bad = 0
for pid, rc, lines in res:
    print("%s exit=%d" % (pid, rc))
    for l in lines:
        if not l.startswith("property=") or rc:
            print("    " + l[:220])
    bad += rc != 0
sys.exit(1 if bad else 0)
