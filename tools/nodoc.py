"""Print a python file with line numbers, omitting docstrings, blank lines and licence header."""
import ast, sys
def main(path, lo=None, hi=None):
    src = open(path).read()
    tree = ast.parse(src)
    skip = set()
    for n in ast.walk(tree):
        if isinstance(n, (ast.FunctionDef, ast.ClassDef, ast.Module, ast.AsyncFunctionDef)):
            b = n.body
            if b and isinstance(b[0], ast.Expr) and isinstance(b[0].value, ast.Constant) and isinstance(b[0].value.value, str):
                if b[0].end_lineno - b[0].lineno >= 1:
                    for i in range(b[0].lineno + 1, b[0].end_lineno + 1):
                        skip.add(i)
    for i, line in enumerate(src.splitlines(), 1):
        if lo and i < lo: continue
        if hi and i > hi: break
        if i in skip or not line.strip(): continue
        if i < 15 and line.startswith('#'): continue
        print(f"{i}: {line}")
if __name__ == '__main__':
    a = sys.argv
    main(a[1], int(a[2]) if len(a) > 2 else None, int(a[3]) if len(a) > 3 else None)
