"""Run the repo's suite (-n 16) and compare with the stable_pass list of /root/.vp/BASELINE.json."""
import json, os, subprocess, sys, tempfile, xml.etree.ElementTree as ET
repo = sys.argv[1] if len(sys.argv) > 1 else "/repo"
base = json.load(open("/root/.vp/BASELINE.json"))
want = set(base["stable_pass"])
fd, xmlp = tempfile.mkstemp(suffix=".xml"); os.close(fd)
p = subprocess.run(["/venv/bin/python", "-m", "pytest", "-q", "-p", "no:cacheprovider", "-n", "16",
                    "--timeout=900", "--continue-on-collection-errors", "--junitxml=" + xmlp],
                   cwd=repo, capture_output=True, text=True)
passed = set()
for tc in ET.parse(xmlp).getroot().iter("testcase"):
    if not any(ch.tag in ("failure", "error", "skipped") for ch in tc):
        passed.add("%s::%s" % (tc.get("classname"), tc.get("name")))
os.unlink(xmlp)
missing = sorted(want - passed)
print("stable_pass=%d passed_now=%d missing=%d" % (len(want), len(passed), len(missing)))
for m in missing[:40]:
    print("  MISSING", m)
sys.exit(1 if missing else 0)
