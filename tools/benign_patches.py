"""benign_patches.py <dir with *.diff> : run every claimed check on each behaviour-preserving patch
(analysed in memory through an overlay; /repo is not touched) and list the checks that fire."""
import glob, json, os, re, shutil, subprocess, sys, tempfile
sys.path.insert(0, os.path.dirname(os.path.dirname(os.path.abspath(__file__))))
from concurrent.futures import ProcessPoolExecutor
from mxsa import rules
from mxsa.index import Repo
from mxsa.framework import Ctx, run_rules
mods = rules.load()
PROPS = [p for p in rules.PROPS if p in mods]
REPO = "/repo"


def overlay_of(patch):
    files = re.findall(r"^\+\+\+ b/(\S+)", open(patch).read(), re.M)
    tmp = tempfile.mkdtemp(prefix="bp_")
    try:
        for f in files:
            os.makedirs(os.path.dirname(os.path.join(tmp, f)), exist_ok=True)
            shutil.copy(os.path.join(REPO, f), os.path.join(tmp, f))
        r = subprocess.run(["patch", "-p1", "-s", "-d", tmp, "-i", os.path.abspath(patch)], capture_output=True, text=True)
        if r.returncode != 0:
            return None, r.stdout + r.stderr
        return {f: open(os.path.join(tmp, f)).read() for f in files}, None
    finally:
        shutil.rmtree(tmp, ignore_errors=True)


def base_keys():
    ctx = Ctx()
    return {p: ({f.key for r in run_rules(ctx, p)[0] for f in r.findings}, run_rules(ctx, p)[1]) for p in PROPS}


def one(patch):
    ov, err = overlay_of(patch)
    name = os.path.basename(patch)
    if ov is None:
        return (name, "does-not-apply", err[:200])
    ctx = Ctx(repo=Repo(overlay=ov))
    fired = {}
    for p in PROPS:
        res, errs = run_rules(ctx, p)
        new = [f for r in res for f in r.findings if f.key not in BASE[p][0]]
        newerr = [e for e in errs if e not in BASE[p][1]]
        if new or newerr:
            fired[p] = ["%s %s: %s" % (f.rule, f.construct, f.msg[:110]) for f in new] + ["ERR " + e[:160] for e in newerr]
    return (name, "fired" if fired else "silent", fired)


BASE = base_keys()
if __name__ == "__main__":
    patches = sorted(glob.glob(os.path.join(sys.argv[1], "*.diff")), key=lambda s: [int(x) if x.isdigit() else x for x in re.split(r"(\d+)", s)])
    with ProcessPoolExecutor(16) as ex:
        out = list(ex.map(one, patches))
    nf = 0
    for name, st, info in out:
        if st != "silent":
            nf += st == "fired"
            print(name, st)
            if isinstance(info, dict):
                seen = set()
                for p, msgs in info.items():
                    for m in msgs:
                        if m not in seen:
                            seen.add(m); print("     [%s] %s" % (p, m))
            else:
                print("    ", info)
    print("%d patches, %d fired, %d not applicable" % (len(out), nf, sum(1 for o in out if o[1] == "does-not-apply")))
