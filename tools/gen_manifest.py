"""Regenerate /verif/MANIFEST.json from the rule modules (keeps it valid and in sync)."""
import json, os, sys
sys.path.insert(0, os.path.dirname(os.path.dirname(os.path.abspath(__file__))))
from mxsa import rules
from mxsa.framework import BY_PROP, RULES

NA = {
    "C15": "translation equivalence of the libcst/symtable exporter over arbitrary formula source: "
           "deciding it needs running both sides; no structural necessary condition in reach that a "
           "behaviour-preserving rewrite would keep (DESIGN.md section 4)",
    "C16": "every clause is arithmetic of the block planner get_calcsteps over runtime DAG x step size "
           "(partition, topological position, earliest safe clear); no path/shape rule is a necessary "
           "condition (DESIGN.md section 4)",
    "C20": "token/offset rewriting of arbitrary source layouts (decorator removal, name and docstring "
           "replacement, lambda extraction): a statement about runtime strings; a static rule would "
           "freeze the rewriting code itself (DESIGN.md section 4)",
}
mods = rules.load()
checks = []
na = []
props = [json.loads(l)["id"] for l in open(os.path.join(os.path.dirname(__file__), "..", "properties.jsonl"))]
for p in props:
    if p in mods and BY_PROP.get(p):
        meta = mods[p].META
        kinds = sorted({RULES[r].kind for r in BY_PROP[p]})
        checks.append({
            "property_id": p,
            "quick_cmd": "/venv/bin/python /verif/check.py %s --tier quick" % p,
            "thorough_cmd": "/venv/bin/python /verif/check.py %s --tier thorough" % p,
            "evidence_file": "/verif/evidence/%s.json" % p,
            "replay_cmd_template": "/venv/bin/python /verif/check.py %s --replay {path}" % p,
            "engine": "mxsa",
            "level_claimed": {
                "category": "other",
                "text": meta.get("level_text") or (
                    "Partial, structural: decides the named necessary conditions of %s on every path / "
                    "site of /repo's current source (rules %s); does not decide the behaviour itself. "
                    % (p, ", ".join(BY_PROP[p])) + meta["explanation"]),
                "design_ref": "DESIGN.md section 3, %s" % p,
            },
            "level_note": "Trusted base: CPython ast; hand-built CFG (mxsa/cfg.py) with exceptional edges; "
                          "call resolution by MRO/CHA plus the frozen field-type table (mxsa/callgraph.py); "
                          "frozen rule tables named in each rule; modelx not monkey-patched at run time. "
                          "Thorough tier adds a mutation self-test of the rules (in-memory variants of /repo).",
            "technique": "static analysis: " + meta.get("technique", ", ".join(kinds) + " rules over AST/CFG/call graph"),
        })
    else:
        na.append({"property_id": p, "reason": NA.get(p, "check under construction in this session; not claimed yet")})

man = {
    "version": 1,
    "setup_cmd": "true",
    "hooks": {
        "guard": "MODELX_VERIF",
        "enable": "none needed: the analysis never executes modelx, no instrumentation exists in /repo",
        "baseline_off_cmd": "cd /repo && /venv/bin/python -m pytest -q -p no:cacheprovider --timeout=900 --continue-on-collection-errors",
        "source_commits": [],
        "add_only": True,
    },
    "engines": [{
        "name": "mxsa",
        "path": "/verif/mxsa",
        "serves_properties": [c["property_id"] for c in checks],
        "kind_free_text": "repository-specific static analyser (stdlib ast): source index with C3 MRO, "
                          "statement CFG with exceptional edges and finally-copies, call graph with precision "
                          "levels, effect/who-may-write queries, abstract case interpreter, table extraction",
    }],
    "checks": checks,
    "not_applicable": na,
    "notes": "All checks are static: they parse /repo's working tree on every run and never import modelx. "
             "exit 0 held / exit 1 VIOLATION / exit 2 ANALYSIS-ERROR (anchor vanished, instance floor, undetected mutant). "
             "Known findings: /verif/known_findings.json.",
}
with open(os.path.join(os.path.dirname(__file__), "..", "MANIFEST.json"), "w") as f:
    json.dump(man, f, indent=1)
print("claimed:", [c["property_id"] for c in checks])
print("n/a:", [n["property_id"] for n in na])
