"""UNCHANGED library: the binding of a derived reference depends on the order
of operations and therefore changes over saving and loading.
T.C derives B.C, and B.C.w = B.foo.  While T does not derive B, T.C.w is
B.foo.  T.add_bases(B) does not re-derive T.C.w (T.C is not a sub space of T
in the inheritance graph), so it still is B.foo; after write/read_model, where
all bases are added before the references are assigned, it is T.foo.
Exit 1 when the defect is present.
"""
import os
import sys
import tempfile
import warnings
import modelx as mx

warnings.simplefilter("ignore")

m = mx.new_model("Rebind")
B = m.new_space("B")
B.new_cells("foo", formula=lambda: 1)
C = B.new_space("C")
T = m.new_space("T")
TC = T.new_space("C", bases=C)
C.w = B.foo
assert TC.w is B.foo
T.add_bases(B)
before = TC.w._idtuple

path = os.path.join(tempfile.mkdtemp(), "m")
m.write(path)
m2 = mx.read_model(path)
after = m2.T.C.w._idtuple

if before[1:] != after[1:]:
    print("PRESENT")
    print("  T.C.w is %r before saving and %r after loading"
          % (".".join(before[1:]), ".".join(after[1:])))
    sys.exit(1)
print("OK")
