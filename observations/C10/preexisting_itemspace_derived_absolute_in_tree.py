"""UNCHANGED library: in an ItemSpace a DERIVED auto reference to an object
inside the base's tree is not rebound when static derivation left it absolute.

C10: "in an ItemSpace, references to any object inside the base's tree ... are
bound to the corresponding object of the dynamic tree".  Base.B.x = Base (auto).
Base.Sub derives Base.B; Base is outside Base.B's tree, so Sub.x stays Base with
is_relative False.  In Base[1] the defined one (Base[1].B.x) is rebound to
Base[1], the derived one (Base[1].Sub.x) is left pointing at the static Base.
"""
import sys
import modelx as mx

m = mx.new_model()
Base = m.new_space('Base')
B = Base.new_space('B')
Sub = Base.new_space('Sub', bases=B)
B.x = Base                           # auto
assert Sub.x is Base
Base.parameters = ('i',)

ok = True
if Base[1].B.x is not Base[1]:
    print("VIOLATION: Base[1].B.x is %r" % Base[1].B.x); ok = False
if Base[1].Sub.x is not Base[1]:
    print("VIOLATION: Base[1].Sub.x is %r, expected %r (Base[1].B.x is %r)"
          % (Base[1].Sub.x, Base[1], Base[1].B.x)); ok = False
if not ok:
    sys.exit(1)
print("OK")
