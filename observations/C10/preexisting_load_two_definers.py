"""UNCHANGED library: a model in which two bases of a space define a
reference of the same name cannot be read back.  The reader adds the bases
first and assigns the references afterwards; the second assignment finds the
name already (derived) in the sub space and SpaceManager.new_ref raises
ValueError("Cannot create reference 'x'").  The same happens when a sub space
that was created before its base overrides a reference of the base.
Exit 1 when the defect is present.
"""
import os
import sys
import tempfile
import warnings
import modelx as mx

warnings.simplefilter("ignore")
errors = []

m = mx.new_model("TwoDefiners")
B1 = m.new_space("B1")
B1.new_cells("foo", formula=lambda: 1)
B2 = m.new_space("B2")
B2.new_cells("foo", formula=lambda: 2)
B1.absref(x=B1.foo)
B2.x = B2.foo
S = m.new_space("S", bases=[B1, B2])
assert S.x is B1.foo
path = os.path.join(tempfile.mkdtemp(), "m")
m.write(path)
try:
    m2 = mx.read_model(path)
    if m2.S.x is not m2.B1.foo:
        errors.append("two definers: S.x is %r after loading" % m2.S.x)
except Exception as e:
    errors.append("two definers: read_model raised %r" % e)

m = mx.new_model("SubFirst")
A = m.new_space("A")                    # the sub space is created first
B = m.new_space("B")
B.new_cells("foo", formula=lambda: 1)
A.add_bases(B)
B.x = B.foo
A.absref(x=B.foo)                       # overrides the derived reference
path = os.path.join(tempfile.mkdtemp(), "m")
m.write(path)
try:
    m2 = mx.read_model(path)
    if m2.A.x is not m2.B.foo:
        errors.append("sub first: A.x is %r after loading" % m2.A.x)
except Exception as e:
    errors.append("sub first: read_model raised %r" % e)

if errors:
    print("PRESENT")
    for e in errors:
        print("  " + e)
    sys.exit(1)
print("OK")
