"""UNCHANGED library: a model in which a sub space overrides a reference of its
base cannot be read back when the sub space is loaded before the base.

C10: "modes and bindings survive ... saving and loading".  The reader assigns
references space by space; SpaceManager.new_ref refuses to create Base.x once
ASub.x exists ("Cannot create reference 'x'"), although the same state can be
built interactively (Base.x first, then the override in ASub).
"""
import sys
import pathlib
import tempfile
import modelx as mx

m = mx.new_model("PreLoad")
Sub = m.new_space('ASub')            # created (and written/read) before Base
Base = m.new_space('Base')
Base.new_cells('foo', formula=lambda x: x)
Base.new_cells('bar', formula=lambda x: x)
Sub.add_bases(Base)
Base.x = Base.foo                    # auto
Sub.relref(x=Sub.bar)                # override in the sub space
assert Sub.x is Sub.bar and Base.x is Base.foo

with tempfile.TemporaryDirectory() as tmp:
    m.write(pathlib.Path(tmp) / 'model')
    m.close()
    try:
        m2 = mx.read_model(pathlib.Path(tmp) / 'model')
    except Exception as e:
        print("VIOLATION: cannot read the model back: %s: %s"
              % (type(e).__name__, e))
        sys.exit(1)

ok = (m2.ASub.x is m2.ASub.bar and m2.Base.x is m2.Base.foo
      and m2.ASub._get_object('x', as_proxy=True).refmode == "relative")
if not ok:
    print("VIOLATION: ASub.x is %r, Base.x is %r" % (m2.ASub.x, m2.Base.x))
    sys.exit(1)
print("OK")
