"""UNCHANGED library: a reference to the defining space's own cells cannot be
created (or derived) when the deriving space's dotted path ends with the whole
path of the definer: X.A.B derives A.B.

SpaceGraph.get_relative (modelx/core/model.py) trims the common suffix 'A.B'
off both paths, which leaves '' for the definer, and then never finds the
derivation root: RuntimeError('must not happen').
C10 quantifies over all nesting depths of definer and deriver.
"""
import sys
import modelx as mx

m = mx.new_model()
B = m.new_space('A').new_space('B')
B.new_cells('foo', formula=lambda x: x)
XB = m.new_space('X').new_space('A').new_space('B', bases=B)

try:
    B.x = B.foo                      # auto
except Exception as e:
    print("VIOLATION: A.B.x = A.B.foo fails: %s: %s" % (type(e).__name__, e))
    sys.exit(1)
if XB.x is not XB.foo:
    print("VIOLATION: X.A.B.x is %r" % XB.x)
    sys.exit(1)
print("OK")
