"""UNCHANGED library: a top-level space that has the same name as the nested
space it derives from (C derives from B.C) cannot derive a reference of B.C to
B.C itself or to one of its cells: SpaceGraph.get_relative trims the shared
trailing name "C" off both names, gets the empty name for the sub space and
ends in KeyError('').  The same reference derives fine into X.C.C.
Exit 1 when the defect is present.
"""
import sys
import modelx as mx

errors = []
for label in ("cells", "self"):
    m = mx.new_model()
    B = m.new_space("B")
    BC = B.new_space("C")
    BC.new_cells("baz", formula=lambda: 3)
    if label == "cells":
        BC.r = BC.baz
    else:
        BC.r = BC
    try:
        C = m.new_space("C", bases=BC)
        expected = C.baz if label == "cells" else C
        if C.r is not expected:
            errors.append("%s: C.r should be %r, got %r"
                          % (label, expected, C.r))
    except Exception as e:
        errors.append("%s: new_space('C', bases=B.C) raised %r" % (label, e))
    m.close()

if errors:
    print("PRESENT")
    for e in errors:
        print("  " + e)
    sys.exit(1)
print("OK")
