"""Pre-existing (UNCHANGED library): a model-level reference created AFTER a
child space of the same name hides the child space in its parent:
attribute access and formulas of the parent see the model-level value,
although space-level names should take precedence over model-level ones.
(The reverse order, reference first, refuses to create the space.)
Exit 1 when the behaviour is present.
"""
import sys
import modelx as mx

m = mx.new_model("C12PreHide")
S = m.new_space("S")
x = S.new_space("x")
S.new_cells("get", formula=lambda: x)
m.x = 1                                # accepted

problems = []
if S.x is not x:
    problems.append("S.x is %r although S has the child space %r" % (S.x, x))
if S.get() is not x:
    problems.append("formula in S sees x == %r" % (S.get(),))
if "x" in S.spaces and "x" in S.refs and S.refs["x"] == 1 and S.x == 1:
    problems.append("'x' is in S.spaces and is shown as a reference of S")
m.close()

if problems:
    for p in problems:
        print("PRE-EXISTING:", p)
    sys.exit(1)
print("OK")
