"""Pre-existing (UNCHANGED library): the references a space formula returns
under "refs" are put into the ItemSpace's own references without any name
check, so in the ItemSpace one name denotes two kinds of thing:
 - 'foo' is a cells and an own reference,
 - 'kid' is a child space and an own reference (and the reference hides
   the child space from attribute access),
 - '_self' (special name) is overridden by an own reference,
 - 'i' is a parameter and an own reference.
Exit 1 when the behaviour is present.
"""
import sys
import modelx as mx

m = mx.new_model("C12PreItem")
S = m.new_space("S")
S.new_cells("foo", formula=lambda: 10)
S.new_space("kid")
S.formula = lambda i: {"refs": {"foo": 3, "kid": 4, "i": 7, "_self": 9}}

problems = []
try:
    it = S[1]
except Exception as e:          # a refusal would be the consistent outcome
    print("OK (refused: %r)" % e)
    sys.exit(0)

own = set(it._impl.own_refs)
both = own & set(it.cells)
if both:
    problems.append("cells and own reference share names %s" % sorted(both))
both = own & set(it.spaces)
if both:
    problems.append("child space and own reference share names %s; "
                    "S[1].kid is %r" % (sorted(both), it.kid))
if it._self is not it:
    problems.append("S[1]._self is %r, not the space" % (it._self,))
if "i" in own:
    problems.append("parameter 'i' is also an own reference (S[1].i == %r)"
                    % it.i)
m.close()

if problems:
    for p in problems:
        print("PRE-EXISTING:", p)
    sys.exit(1)
print("OK")
