"""Behaviour of the UNCHANGED library that violates C03.

Inheritance graph:   Z <- N <- A <- X <- U   and   N <- U   (U has bases [X, N])

SpaceUpdater.remove_bases / del_defined_space re-derive the sub spaces in
edge-BFS order, so U (one edge from N) is re-derived BEFORE X (two edges
from N).  At that moment X still holds its stale derived copy of the members
that came from Z, nobody defines them any more, and UserSpaceImpl.on_inherit
calls member.on_inherit(updater, []) -> IndexError.  The operation aborts
half way: N and A have lost the members, X and U keep derived members that
no base defines, and `bases` still lists Z.

Exit 1 when the defect is present, 0 otherwise.
"""
import sys
import modelx as mx

problems = []


def bases_repr(space):
    out = []
    for b in space.bases:
        try:
            out.append(b.name)
        except Exception as e:      # a base that was deleted meanwhile
            out.append("<%s>" % type(e).__name__)
    return out


def scenario(kind, remove):
    m = mx.new_model()
    Z = m.new_space("Z")
    if kind == "cells":
        Z.new_cells("foo", lambda: 1)
    else:
        Z.foo = 1
    N = m.new_space("N")
    A = m.new_space("A", bases=N)
    X = m.new_space("X", bases=A)
    U = m.new_space("U", bases=[X, N])
    N.add_bases(Z)
    members = (lambda s: s.cells) if kind == "cells" else (lambda s: s._impl.own_refs)
    assert all("foo" in members(s) for s in (N, A, X, U))
    tag = "%s/%s" % (kind, remove)
    try:
        if remove == "remove_bases":
            N.remove_bases(Z)
        else:
            del m.Z
    except Exception as e:
        problems.append("%s raised %s: %s" % (tag, type(e).__name__, e))
    left = [s.name for s in (N, A, X, U) if "foo" in members(s)]
    if left:
        problems.append(
            "%s: %s still contain a derived 'foo' that no base defines "
            "(N.bases=%s)" % (tag, left, bases_repr(N)))
    m.close()


for kind in ("cells", "refs"):
    for remove in ("remove_bases", "del_space"):
        scenario(kind, remove)

if problems:
    print("PRE-EXISTING C03 VIOLATION:")
    for p in problems:
        print(" -", p)
    sys.exit(1)
print("OK")
