"""Pre-existing (UNCHANGED library): closing model B deletes an IOSpec that
belongs to model A.

IOs with an absolute path are registered in the IOManager under the group
None, and IOManager.get_spec_from_value() searches the caller's group plus
the None group by value identity.  If B merely references (plain reference,
no spec of its own) a value for which A holds an absolute-path spec,
B.iospecs lists A's spec, and B.close() -> del_all_spec() deletes it:
A loses its IOSpec and no longer writes the file.
Exits 1 when the violation is observed.
"""
import sys
import pathlib
import tempfile
import warnings
import pandas as pd
import modelx as mx

warnings.simplefilter("ignore")
for m in list(mx.get_models().values()):
    m.close()

d = pathlib.Path(tempfile.mkdtemp())
df = pd.DataFrame({"a": [1, 2]})

A = mx.new_model("A")
A.new_pandas("df", str(d / "df.xlsx"), data=df, file_type="excel")
a_specs_before = list(A.iospecs)

B = mx.new_model("B")
B.x = df                       # plain reference to the same object
print("A.iospecs:", A.iospecs)
print("B.iospecs:", B.iospecs, "(B never created a spec)")

B.close()
print("A.iospecs after B.close():", A.iospecs)

bad = False
if len(A.iospecs) != len(a_specs_before):
    print("VIOLATION: closing B removed an IOSpec of A")
    bad = True
A.write(d / "A_written")
if not (d / "df.xlsx").exists():
    print("VIOLATION: A.write() no longer writes", d / "df.xlsx")
    bad = True
sys.exit(1 if bad else 0)
