"""UNCHANGED library: the reference mode of a reference whose value is not a
modelx object is not written, so it comes back as "auto".
Exit 1 when the behaviour is present."""
import sys, pathlib, tempfile
import modelx as mx

m = mx.new_model("PreRefmode")
s = m.new_space("S")
s.set_ref("x", 1, refmode="absolute")
s.set_ref("y", [1, 2], refmode="relative")
path = pathlib.Path(tempfile.mkdtemp()) / "m"
m.write(path)
m2 = mx.read_model(path, name="PreRefmode_read")
bad = []
for n in ("x", "y"):
    before = mx.get_object("PreRefmode.S." + n, as_proxy=True).refmode
    after = mx.get_object("PreRefmode_read.S." + n, as_proxy=True).refmode
    if before != after:
        bad.append("S.%s refmode %r -> %r" % (n, before, after))
if bad:
    print("PRESENT:", "; ".join(bad))
    sys.exit(1)
print("OK")
