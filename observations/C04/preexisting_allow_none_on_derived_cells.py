"""UNCHANGED library: allow_none assigned on a derived cells does not make the
cells defined, so it is not written and comes back as None.
Exit 1 when the behaviour is present."""
import sys, pathlib, tempfile
import modelx as mx

m = mx.new_model("PreAllowNone")
base = m.new_space("Base")

@mx.defcells(space=base)
def foo(x):
    return x

sub = m.new_space("Sub", bases=base)
sub.foo.allow_none = True
path = pathlib.Path(tempfile.mkdtemp()) / "m"
m.write(path)
m2 = mx.read_model(path, name="PreAllowNone_read")
if m2.Sub.foo.allow_none != sub.foo.allow_none:
    print("PRESENT: Sub.foo.allow_none %r -> %r"
          % (sub.foo.allow_none, m2.Sub.foo.allow_none))
    sys.exit(1)
print("OK")
