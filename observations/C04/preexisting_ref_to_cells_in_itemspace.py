"""UNCHANGED library: a reference to a cells inside an ItemSpace A[1], held by a
space that is read before A, comes back pointing at a deleted object when A has
a reference of its own: on reading, S1.c = A[1].foo creates A[1], then A.k = 5
deletes the ItemSpaces of A.  (A reference to the ItemSpace A[1] itself
survives.)  Exit 1 when the behaviour is present."""
import sys, pathlib, tempfile
import modelx as mx

m = mx.new_model("PreItemRef")
s1 = m.new_space("S1")
a = m.new_space("A", formula=lambda i: None)

@mx.defcells(space=a)
def foo(x):
    return x * k

a.k = 5
s1.r = a[1]
s1.c = a[1].foo
assert s1.c is a[1].foo and s1.c(2) == 10
path = pathlib.Path(tempfile.mkdtemp()) / "m"
m.write(path)
m2 = mx.read_model(path, name="PreItemRef_read")
bad = []
if m2.S1.r is not m2.A[1]:
    bad.append("S1.r is not A[1]")
if not m2.S1.c._is_valid() or m2.S1.c is not m2.A[1].foo:
    bad.append("S1.c valid=%r, is A[1].foo=%r"
               % (m2.S1.c._is_valid(), m2.S1.c is m2.A[1].foo))
if bad:
    print("PRESENT:", "; ".join(bad))
    sys.exit(1)
print("OK")
