"""UNCHANGED library: a carriage return in a doc string (model, space or
lambda cells) is written raw and read back through universal newlines,
so "\r" and "\r\n" become "\n".  Exit 1 when the behaviour is present."""
import sys, pathlib, tempfile
import modelx as mx

m = mx.new_model("PreCR")
m.doc = "model a\rb"
s = m.new_space("S")
s.doc = "line1\r\nline2"
c = s.new_cells("foo", formula=lambda x: x)
c.doc = "lam\rdoc"
tmp = pathlib.Path(tempfile.mkdtemp())
bad = []
for how in ("write", "zip"):
    path = tmp / ("m_" + how)
    getattr(m, how)(path)
    m2 = mx.read_model(path, name="PreCR_" + how)
    for label, a, b in (("model.doc", m.doc, m2.doc),
                        ("S.doc", s.doc, m2.S.doc),
                        ("S.foo.doc", c.doc, m2.S.foo.doc)):
        if a != b:
            bad.append("%s %s: %r -> %r" % (how, label, a, b))
if bad:
    print("PRESENT:")
    for b in bad:
        print(" -", b)
    sys.exit(1)
print("OK")
