"""Pre-existing violation of C17 on the UNCHANGED library.

A formula that raises the *same exception instance* on two separate
evaluations (here an exception object held as a reference).  Python keeps
extending the __traceback__ of a re-raised instance, so on the second failure
ErrorStack sees the formula frames of the first failure too, pops more nodes
than were rolled back and dies with IndexError("pop from an empty deque")
inside modelx: the call raises IndexError instead of FormulaError and
get_traceback() returns [] although the evaluation failed.
"""
import sys
import modelx as mx
from modelx.core.errors import FormulaError

m = mx.new_model("PreM")
s = m.new_space("S")
s.ERR = ValueError("shared instance")


@mx.defcells
def a(x):
    return b(x) + 1


@mx.defcells
def b(x):
    raise ERR


bad = []
for i in (1, 2):
    try:
        a(i)
    except FormulaError:
        pass
    except Exception as e:
        bad.append("a(%s) raised %r instead of FormulaError" % (i, e))
    tb = mx.get_traceback()
    if tb != [(a.node(i), 2), (b.node(i), 2)]:
        bad.append("a(%s): get_traceback() == %r" % (i, tb))
    if mx.get_error() is not s.ERR:
        bad.append("a(%s): get_error() == %r" % (i, mx.get_error()))

if bad:
    print("VIOLATION (pre-existing):")
    for b_ in bad:
        print("  " + b_)
    sys.exit(1)
print("OK")
