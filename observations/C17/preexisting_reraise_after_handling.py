"""Pre-existing (unchanged library), debatable: a formula catches the error
of a callee, goes on, and later raises the caught exception object itself.

When the exception escapes only a2(1) is executing (b2(1) failed, was
rolled back and its error was handled), and the formula that raises is
a2's (line 7).  get_traceback() nevertheless ends with b2(1), because the
exception instance still carries the frames of its first propagation and
b2's rollback was recorded with the same instance.
Exit 1 when the behaviour is present.
"""
import sys
import modelx as mx
from modelx.core.errors import FormulaError

m = mx.new_model("PreC17b")
s = m.new_space("S")


@mx.defcells
def b2(x):
    raise KeyError(x)


@mx.defcells
def a2(x):
    try:
        b2(x)
    except KeyError as e:
        err = e
    y = 1
    raise err


try:
    a2(1)
except FormulaError:
    pass
got = [(n.obj.name, n.args, line) for n, line in mx.get_traceback()]
m.close()
if got != [("a2", (1,), 7)]:
    print("C17 VIOLATED? (unchanged library) get_traceback() is", got,
          "expected [('a2', (1,), 7)]")
    sys.exit(1)
print("OK")
