"""UNCHANGED library, fault-injected: ModelWriter builds the archive in the
system temp directory and publishes it with shutil.move().  When the
destination is on another filesystem than the temp directory, shutil.move()
is a plain byte copy onto the destination path, so an I/O error during that
copy (disk full, network share dropping - the GH82 situation) leaves a
truncated archive AT the destination.  The fault is injected by making
shutil.copyfile write half of the bytes and raise ENOSPC; the cross-device
situation is real if /dev/shm is a different filesystem, else simulated by
making os.rename raise EXDEV.  Exit 1 when the behaviour is present."""
import sys, os, errno, shutil, pathlib, tempfile, warnings, zipfile
import modelx as mx

warnings.simplefilter("ignore")

tmpdev = os.stat(tempfile.gettempdir()).st_dev
shm = pathlib.Path("/dev/shm")
real_rename = os.rename
if shm.is_dir() and os.stat(shm).st_dev != tmpdev and os.access(shm, os.W_OK):
    base = pathlib.Path(tempfile.mkdtemp(dir=shm))
else:
    base = pathlib.Path(tempfile.mkdtemp())
    def fake_rename(src, dst, *a, **k):
        if str(dst).startswith(str(base)) and not str(src).startswith(str(base)):
            raise OSError(errno.EXDEV, "Invalid cross-device link")
        return real_rename(src, dst, *a, **k)
    os.rename = fake_rename

try:
    dest = base / "model.zip"
    m = mx.new_model("M")
    m.new_space("S").lst = list(range(1000))
    m.zip(dest)                                  # generation 1, complete

    real_copyfile = shutil.copyfile
    def failing_copyfile(src, dst, *a, **k):
        if str(dst) == str(dest):
            data = pathlib.Path(src).read_bytes()
            with open(dst, "wb") as f:
                f.write(data[:len(data) // 2])
            raise OSError(errno.ENOSPC, "No space left on device")
        return real_copyfile(src, dst, *a, **k)
    shutil.copyfile = failing_copyfile
    try:
        m.zip(dest)
    except OSError as e:
        print("second save failed as injected: %r" % e)
    else:
        print("fault was not hit"); sys.exit(2)
    finally:
        shutil.copyfile = real_copyfile

    problems = []
    if dest.exists():
        problems.append(
            "destination holds %d bytes after the failed save; is_zipfile=%s"
            % (dest.stat().st_size, zipfile.is_zipfile(dest)))
    bak = pathlib.Path(str(dest) + "_BAK1")
    if not (bak.exists() and zipfile.is_zipfile(bak)):
        problems.append("first backup missing or damaged")
    if problems:
        print("PRESENT:")
        for p in problems:
            print("  -", p)
        sys.exit(1)
    print("OK (not present)")
finally:
    os.rename = real_rename
    shutil.rmtree(base, ignore_errors=True)
