"""UNCHANGED library, property C14: a load that fails after the model's
IOSpecs were unpickled leaves them registered in the session's IO manager.

read_model() unpickles _data/iospecs.pickle (each spec registers itself and
its file with system.iomanager) and only then reads _data/data.pickle.  When
that second read fails, the half-loaded model is closed, but closing only
removes the specs of values that are already bound to references - none yet.
The orphan stays in iomanager.ios.  For a data file with an absolute path
(shared key, not per model) every later load of the same model in the session
then fails with "ValueError: cannot add spec".

The failure used here: _data/data.pickle truncated on disk, then restored.
Exits 1 when the violation shows.
"""
import sys, pathlib, tempfile, warnings
import pandas as pd
import modelx as mx
from modelx.core.system import mxsys

warnings.simplefilter("ignore")
tmp = pathlib.Path(tempfile.mkdtemp())
path = tmp / "model"
(tmp / "ext").mkdir()

m = mx.new_model("M")
s = m.new_space("S")
s.new_pandas("df", str(tmp / "ext" / "df.csv"),          # external data file
             pd.DataFrame({"a": [1, 2, 3]}), file_type="csv")
m.write(path)
m.close()
assert not mxsys.iomanager.ios

pickle_file = path / "_data" / "data.pickle"
good = pickle_file.read_bytes()
pickle_file.write_bytes(good[:len(good) // 2])           # damaged save
try:
    mx.read_model(path)
    print("load unexpectedly succeeded"); sys.exit(2)
except Exception as e:
    print("load failed as intended:", type(e).__name__)
pickle_file.write_bytes(good)                            # repaired

bad = False
print("models registered:", list(mx.get_models()))
if mxsys.iomanager.ios:
    print("VIOLATION: residue in the IO manager after the failed load:",
          list(mxsys.iomanager.ios))
    bad = True
try:
    m2 = mx.read_model(path)
    print("later load ok:", list(m2.S.df["a"]))
except Exception as e:
    print("VIOLATION: later load of the repaired model fails: %s: %s"
          % (type(e).__name__, e))
    bad = True
sys.exit(1 if bad else 0)
