"""Pre-existing (UNCHANGED library): handles to a deleted Reference keep
working instead of raising DeletedObjectError.

ReferenceImpl.on_delete() is a no-op, so a ReferenceProxy
(mx.get_object(..., as_proxy=True)) or a ReferenceNode (from
cells.precedents()) taken before ``del space.x`` / ``del model.g`` still
reports name, parent, fullname and the old value afterwards.

Exits 1 and prints what survives when the behaviour is present.
"""
import sys
import modelx as mx
from modelx.core.errors import DeletedObjectError

m = mx.new_model("C13PreRef")
S = m.new_space("S")
S.x = 5
m.g = 7


@mx.defcells(space=S)
def foo():
    return x + g


assert foo() == 12

px = mx.get_object("C13PreRef.S.x", as_proxy=True)
pg = mx.get_object("C13PreRef.g", as_proxy=True)
node = [n for n in foo.precedents() if type(n).__name__ == "ReferenceNode"
        and n.obj.name == "x"][0]

del S.x
del m.g

assert "x" not in S.refs and "g" not in m.refs
assert not len(foo)     # the dependent value is correctly cleared

survivors = []
for label, getter in (
        ("ReferenceProxy S.x .value", lambda: px.value),
        ("ReferenceProxy S.x .fullname", lambda: px.fullname),
        ("ReferenceProxy S.x .parent", lambda: px.parent),
        ("ReferenceProxy g .value", lambda: pg.value),
        ("ReferenceNode S.x .value", lambda: node.value),
        ("ReferenceNode S.x .obj.value", lambda: node.obj.value)):
    try:
        survivors.append("%s -> %r" % (label, getter()))
    except DeletedObjectError:
        pass

if survivors:
    print("handles to deleted references still act on orphaned state:")
    for s in survivors:
        print(" -", s)
    sys.exit(1)
print("OK")
