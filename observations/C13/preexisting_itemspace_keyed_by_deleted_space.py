"""Pre-existing (unchanged library): an ItemSpace whose ARGUMENT is a space
survives the deletion of that space.  The ItemSpace stays listed under a
'null object' key, its handle stays valid, and a cells that only read an
attribute of the argument keeps the value computed from the deleted space.
Exit 1 when the behaviour is present.
"""
import sys
import modelx as mx

m = mx.new_model()
A = m.new_space("A")
A.new_cells("one", lambda: 1)
T = m.new_space("T", formula=lambda s: None)
T.new_cells("foo", lambda: s.one() + 1)
T.new_cells("nm", lambda: s.name)

it = T[A]
foo = it.foo
nm = it.nm
assert foo() == 2 and nm() == "A"

del m.A

problems = []
if len(T.itemspaces):
    problems.append("T.itemspaces still lists %r" % list(T.itemspaces))
try:
    it.name
except Exception:
    pass
else:
    problems.append("handle to T[A] is still valid after A was deleted")
for c in (foo, nm):
    try:
        if len(c):
            problems.append("T[A].%s still holds %r computed from the deleted A"
                            % (c.name, dict(c._impl.data)))
    except Exception:
        pass

if problems:
    print("PRE-EXISTING C13 violation:")
    for p in problems:
        print(" -", p)
    sys.exit(1)
print("OK")
