"""UNCHANGED library: arguments that compare equal but are different objects
(1, 1.0, True) share one element, so the value returned depends on which of
them was used first; uncached evaluation distinguishes them.
(Same as functools.lru_cache(typed=False); borderline.)
Exit 1 when the behaviour is present."""
import sys
import modelx as mx

m = mx.new_model()
s = m.new_space("S")
s.new_cells("kind", formula=lambda x: type(x).__name__)
got = (s.kind(1), s.kind(1.0), s.kind(True))
m.close()
if got != ("int", "float", "bool"):
    print("PRESENT: kind(1), kind(1.0), kind(True) ==", got)
    sys.exit(1)
print("OK")
