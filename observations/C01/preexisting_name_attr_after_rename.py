"""UNCHANGED library: a formula that reads the ``name``/``fullname`` of a
space (or of the model) obtained through a reference keeps its value after
that object is renamed: renaming clears the cells of the renamed space, but
not the cells of other spaces that read the attribute.
Exit 1 when the behaviour is present."""
import sys
import modelx as mx

m = mx.new_model("MA")
P = m.new_space("P")
Q = m.new_space("Q")
Q.R = P
Q.new_cells("nm", formula=lambda: R.name)
Q.new_cells("mn", formula=lambda: _model.name)
assert Q.nm() == "P" and Q.mn() == "MA"
P.rename("P2")
m.rename("MB")
bad = []
if Q.nm() != Q.R.name:
    bad.append("Q.nm() == %r, R.name == %r" % (Q.nm(), Q.R.name))
if Q.mn() != m.name:
    bad.append("Q.mn() == %r, model name == %r" % (Q.mn(), m.name))
m.close()
if bad:
    print("PRESENT:", "; ".join(bad))
    sys.exit(1)
print("OK")
