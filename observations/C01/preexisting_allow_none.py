"""UNCHANGED library: a None held by a cells survives allow_none being
switched off.  Uncached evaluation of the formula would now raise
NoneReturnedError, the cached call still returns None.
Exit 1 when the behaviour is present."""
import sys
import modelx as mx
from modelx.core.errors import NoneReturnedError

m = mx.new_model()
s = m.new_space("S")
s.allow_none = True
s.new_cells("n", formula=lambda: None)
s.new_cells("fresh", formula=lambda: None)
assert s.n() is None
s.allow_none = False

def raises(c):
    try:
        c()
    except Exception as e:      # FormulaError wrapping NoneReturnedError
        return "NoneReturnedError" in str(e) or isinstance(e, NoneReturnedError)
    return False

uncached_raises = raises(s.fresh)       # never computed before
cached_raises = raises(s.n)
m.close()
if uncached_raises and not cached_raises:
    print("PRESENT: n() still returns the cached None although allow_none "
          "is False (a never-computed twin raises)")
    sys.exit(1)
print("OK")
