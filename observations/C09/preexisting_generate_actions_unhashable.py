"""UNCHANGED library: Model.generate_actions fails (TypeError: unhashable
type) when a target depends on an uncached cells called with an unhashable
argument, although plain evaluation accepts it. exit 1 when present."""
import sys, warnings
import modelx as mx
warnings.simplefilter("ignore")

m = mx.new_model("C09pre_actions")
s = m.new_space("S")

@mx.uncached
def L(xs):
    return sum(xs)

@mx.defcells
def A(x):
    return L([x, 1])

assert A(2) == 3
A.clear()
try:
    actions = m.generate_actions([A.node(2)])
    m.execute_actions(actions)
    ok = (A(2) == 3)
    msg = "A(2) == %r" % A(2)
except Exception as e:
    ok = False
    msg = "generate_actions raised %s: %s" % (type(e).__name__, str(e).splitlines()[0])
m.close()
if not ok:
    print("DIVERGES:", msg)
    sys.exit(1)
print("OK")
