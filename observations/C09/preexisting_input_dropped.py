"""UNCHANGED library: switching a cells that holds an INPUT value to uncached
silently drops the input, so the cells and its dependents return other values
(and switching back does not restore them). exit 1 when present."""
import sys
import modelx as mx

m = mx.new_model("C09pre_input")
s = m.new_space("S")

@mx.defcells
def I(x):
    return x * 2

@mx.defcells
def B(x):
    return I(x) + 1

I[1] = 50
before = (I(1), B(1))
I.is_cached = False
after = (I(1), B(1))
m.close()
if before != after:
    print("DIVERGES: (I(1), B(1)) == %r while cached, %r after I.is_cached = False" % (before, after))
    sys.exit(1)
print("OK")
