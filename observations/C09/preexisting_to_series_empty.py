"""UNCHANGED library: Cells.to_series(*args) / to_frame(*args) return the
values of the given arguments for a cached cells but an EMPTY result for the
same cells when uncached. exit 1 when present."""
import sys
import modelx as mx

m = mx.new_model("C09pre_series")
s = m.new_space("S")

@mx.defcells
def T(x):
    return x * 10

res = {}
for flag in (True, False):
    T.is_cached = flag
    res[flag] = T.to_series(1, 2).to_dict()
m.close()
if res[True] != res[False]:
    print("DIVERGES: cached to_series(1, 2) == %r ; uncached == %r" % (res[True], res[False]))
    sys.exit(1)
print("OK")
