"""Pre-existing (UNCHANGED library): setting / changing the parameter formula
of a *child* space of the base (or of a base used through {'base': ...} from
another space) does not discard the existing ItemSpaces: the replicated child
keeps the old (or no) parameters, so indexing it fails or binds differently
from the base.

exit 1 when the behaviour is present, 0 otherwise.
"""
import sys
import modelx as mx
from modelx.core.errors import DeletedObjectError

problems = []
m = mx.new_model("C07childformula")
S = m.new_space("S", formula="lambda k: None")
C = S.new_space("C")
C.new_cells("foo", formula="lambda: k * 10")
inst = S[1]
assert inst.C.foo() == 10

C.formula = "lambda j: None"        # S.C is now parametrised
assert S.C.parameters == ("j",)
if S[1].C.parameters != ("j",):
    problems.append("S.C.parameters == ('j',) but S[1].C.parameters == %r"
                    % (S[1].C.parameters,))
try:
    S[1].C[2].foo()
except DeletedObjectError:
    pass
except Exception as e:
    problems.append("S[1].C[2] raises %s" % type(e).__name__)

# the same through {'base': ...}
T = m.new_space("T", formula="lambda k: {'base': _model.S}")
t = T[1]
S.formula = "lambda k, q=1: None"
if T[1].parameters != S.parameters:
    problems.append("S.parameters == %r but T[1].parameters == %r"
                    % (S.parameters, T[1].parameters))
m.close()
if problems:
    print("PRESENT")
    for p in problems:
        print(" -", p)
    sys.exit(1)
print("OK (not present)")
