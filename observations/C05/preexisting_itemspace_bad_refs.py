"""UNCHANGED library: the evaluation of an ItemSpace that fails after the
parameter formula returned (here: 'refs' is not a mapping) leaves a half-built
ItemSpace registered in its parent (named_itemspaces, _dynamic_subs).  The
failed element itself has no value and can be retried, but the leftover makes
later edits of the parent space crash.  exit 1 when present."""
import sys
import warnings
import modelx as mx
from modelx.core.errors import FormulaError

warnings.simplefilter("ignore")
m = mx.new_model()
S = m.new_space("S")
flag = {"refs": [("y", 1)]}          # malformed: not a mapping
S.flag = flag
S.formula = "lambda x: {'refs': flag['refs']}"
S.new_cells("foo", formula="lambda t: t * y")

problems = []
try:
    S[1]
    problems.append("no error for malformed refs")
except FormulaError:
    pass

if len(S.itemspaces) != 0:
    problems.append("S.itemspaces not empty after the failure")
if len(S._impl.named_itemspaces) != 0:
    problems.append("half-built ItemSpace left in named_itemspaces: %s"
                    % list(S._impl.named_itemspaces))
if len(S._impl._dynamic_subs) != 0:
    problems.append("half-built ItemSpace left in _dynamic_subs (%d)"
                    % len(S._impl._dynamic_subs))

flag["refs"] = {"y": 1}
try:
    if S[1].foo(2) != 2:
        problems.append("retry gives wrong value")
    S.new_cells("bar", formula="lambda t: 2 * t")   # an ordinary later edit
    if S[1].bar(2) != 4:
        problems.append("bar wrong")
except Exception as e:
    problems.append("later operation failed: %s: %s" % (type(e).__name__, e))

if problems:
    print("PRESENT")
    for p in problems:
        print(" -", p)
    sys.exit(1)
print("OK")
