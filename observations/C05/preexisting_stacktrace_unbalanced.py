"""UNCHANGED library: with stack tracing active, a formula that fails is
recorded as ENTERed but never EXITs (TraceableCallStack has no rollback
override), i.e. it stays 'executing' in the trace.  The summary then pairs
the next EXIT with the failed formula: the failed cell gets a completed call
and the caller that handled the error gets none.  exit 1 when present."""
import sys
import warnings
import modelx as mx

warnings.simplefilter("ignore")
m = mx.new_model()
T = m.new_space("T")


@mx.defcells(space=T)
def b():
    raise ValueError("boom")


@mx.defcells(space=T)
def c():
    return 1


@mx.defcells(space=T)
def a():
    try:
        b()
    except ValueError:
        pass
    return c()


mx.start_stacktrace()
try:
    assert a() == 1
    trace = mx.get_stacktrace()
    summary = mx.get_stacktrace(summarize=True)
finally:
    mx.stop_stacktrace()

problems = []
enters = sum(1 for t in trace if t[0] == "ENTER")
exits = sum(1 for t in trace if t[0] == "EXIT")
if enters != exits:
    problems.append("%d ENTER but %d EXIT records" % (enters, exits))
if summary["Model1.T.a()"]["calls"] != 1:
    problems.append("a() completed once but summary says calls=%d"
                    % summary["Model1.T.a()"]["calls"])
if summary["Model1.T.b()"]["calls"] != 0:
    problems.append("b() never completed but summary says calls=%d"
                    % summary["Model1.T.b()"]["calls"])
if problems:
    print("PRESENT")
    for p in problems:
        print(" -", p)
    sys.exit(1)
print("OK")
