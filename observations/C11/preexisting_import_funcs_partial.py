"""UNCHANGED library: import_funcs()/new_cells_from_module() and import_module()
are not atomic.  When one function of the module cannot become a cells (name
clash in a sub space / with a model-level reference) the call raises, but the
cells created before it - or the whole new space - stay.  exit 1 when present."""
import sys, types, warnings
import modelx as mx
warnings.simplefilter("ignore")

mod = types.ModuleType("pre_modx")
exec("def aaa(): return 1\ndef bbb(): return 2\ndef ccc(): return 3\n", mod.__dict__)
sys.modules["pre_modx"] = mod
problems = []

m = mx.new_model("pre_import_funcs")
S = m.new_space("S")
T = m.new_space("T", bases=S)
T.bbb = 5                       # 'bbb' is a reference in the sub space
try:
    S.import_funcs(mod)
except ValueError as e:
    if list(S.cells) or list(T.cells):
        problems.append("S.import_funcs raised %r but S.cells=%s T.cells=%s"
                        % (str(e), list(S.cells), list(T.cells)))

m2 = mx.new_model("pre_import_module")
m2.bbb = 1                      # model-level reference of the same name
try:
    m2.import_module(mod)
except Exception as e:
    if list(m2.spaces):
        problems.append("m.import_module raised %s but left spaces %s with cells %s"
                        % (type(e).__name__, list(m2.spaces),
                           {n: list(s.cells) for n, s in m2.spaces.items()}))
if problems:
    print("PRE-EXISTING VIOLATION of C11")
    for p in problems:
        print(" -", p)
    sys.exit(1)
print("OK")
