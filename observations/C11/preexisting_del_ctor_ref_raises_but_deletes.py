"""UNCHANGED library: references given through new_space(refs=...) (and hence
those of copied spaces) are not registered with the reference manager.
`del S.r` raises AssertionError - after the reference was deleted.
exit 1 when present."""
import sys
import modelx as mx

m = mx.new_model("pre_del_ctor_ref")
S = m.new_space("S", refs={"r": 5})
S.new_cells("foo", lambda: r)
assert S.foo() == 5
problems = []
try:
    del S.r
except BaseException as e:
    if "r" not in S.refs:
        problems.append("del S.r raised %s but the reference is gone"
                        % type(e).__name__)
if problems:
    print("PRE-EXISTING VIOLATION of C11")
    for p in problems:
        print(" -", p)
    sys.exit(1)
print("OK")
