"""UNCHANGED library: new_space_from_pandas validates the column names only
after the new space was created; the rejected call leaves the space behind."""
import sys
import warnings
import pandas as pd
import modelx as mx

warnings.simplefilter("ignore")
m = mx.new_model("M")
df = pd.DataFrame({"ok": [1, 2], "not ok": [3, 4]},
                  index=pd.Index([0, 1], name="x"))
before = list(m.spaces)
try:
    m.new_space_from_pandas(df, space="S")
except ValueError as e:
    print("new_space_from_pandas rejected:", e)
else:
    print("accepted - scenario not applicable"); sys.exit(0)
after = list(m.spaces)
if before != after:
    print("VIOLATION: rejected call left spaces", after, "(before:", before, ")")
    sys.exit(1)
print("OK")
