"""UNCHANGED library: new_pandas refuses a sheet-less spec in a file that has other
specs, but the 'sheet' setter accepts None there; the saved model cannot be read back."""
import sys, tempfile, pathlib, pandas as pd, modelx as mx
bad = []
td = pathlib.Path(tempfile.mkdtemp())
m = mx.new_model("PreSheet")
a = pd.DataFrame({"a": [1, 2]}); b = pd.DataFrame({"b": [3, 4]})
m.new_pandas("a", "f.xlsx", a, file_type="excel", sheet="sa")
m.new_pandas("b", "f.xlsx", b, file_type="excel", sheet="sb")
try:
    m.get_spec(b).sheet = None
except ValueError:
    pass
else:
    m.write(td / "m"); m.close()
    try:
        m = mx.read_model(td / "m")
        if not (m.a.equals(a) and m.b.equals(b)):
            bad.append("values read back differ")
    except Exception as e:
        bad.append("sheet=None accepted next to another sheet; read_model fails: %r" % e)
for mm in list(mx.get_models().values()):
    mm.close()
print("\n".join(bad) if bad else "OK"); sys.exit(1 if bad else 0)
