"""UNCHANGED library: references created by UserSpace.copy() / new_space(refs=...)
are not registered, so deleting the original reference kills the spec while the
value is still bound in the copy."""
import sys, pandas as pd, modelx as mx
bad = []
m = mx.new_model("PreCopy")
A = m.new_space("A")
df = pd.DataFrame({"a": [1, 2]})
A.new_pandas("df", "a.xlsx", df, file_type="excel")
B = A.copy(m, "B")                      # B.df is df
C = m.new_space("C", refs={"x": df})    # C.x is df
del A.df
if (B.df is df or C.x is df) and not m.iospecs:
    bad.append("df still bound to B.df / C.x but iospecs == []")
m.close()
print("\n".join(bad) if bad else "OK"); sys.exit(1 if bad else 0)
