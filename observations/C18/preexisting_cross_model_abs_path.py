"""UNCHANGED library: specs with an absolute path are looked up for every model
(io group None).  Deleting a plain reference to the same object in ANOTHER model
deletes the first model's spec although its reference is still bound."""
import sys, tempfile, pathlib, pandas as pd, modelx as mx
bad = []
td = pathlib.Path(tempfile.mkdtemp())
m1 = mx.new_model("PreAbs1"); m2 = mx.new_model("PreAbs2")
df = pd.DataFrame({"a": [1, 2]})
m1.new_pandas("df", td / "abs.xlsx", df, file_type="excel")
m2.y = df          # plain reference in another model
del m2.y
if m1.df is df and not m1.iospecs:
    bad.append("m1.df still bound but m1.iospecs == [] after 'del m2.y'")
m1.close(); m2.close()
print("\n".join(bad) if bad else "OK"); sys.exit(1 if bad else 0)
