"""UNCHANGED library: new_pandas twice with the SAME object creates two specs for
one value; only the first is visible in model.iospecs / reachable by get_spec, and the
second one survives the deletion of all references."""
import sys, pandas as pd, modelx as mx
bad = []
m = mx.new_model("PreTwo")
df = pd.DataFrame({"a": [1, 2]})
m.new_pandas("a", "a.xlsx", df, file_type="excel")
m.new_pandas("b", "b.xlsx", df, file_type="excel")
ios = m._impl.system.iomanager.get_ios(m)
n_all = sum(len(io.specs) for io in ios.values())
if n_all != len(m.iospecs):
    bad.append("manager holds %d specs, model.iospecs lists %d" % (n_all, len(m.iospecs)))
del m.a; del m.b
ios = m._impl.system.iomanager.get_ios(m)
left = [s for io in ios.values() for s in io.specs.values()]
if left:
    bad.append("no reference left but manager still holds %r" % left)
m.close()
print("\n".join(bad) if bad else "OK"); sys.exit(1 if bad else 0)
