"""UNCHANGED library: PandasData._squeeze is set for a Series and never reset, so
after update_pandas(series, one_column_dataframe) the value is read back as a Series."""
import sys, tempfile, pathlib, pandas as pd, modelx as mx
bad = []
td = pathlib.Path(tempfile.mkdtemp())
m = mx.new_model("PreSqueeze")
m.new_pandas("x", "x.xlsx", pd.Series([1, 2, 3], name="s"), file_type="excel")
df1 = pd.DataFrame({"c": [1.5, 2.5, 3.5]})
m.update_pandas(m.x, df1)
m.write(td / "m"); m.close()
m = mx.read_model(td / "m")
if not (isinstance(m.x, pd.DataFrame) and m.x.equals(df1)):
    bad.append("DataFrame written, read back as %s" % type(m.x).__name__)
m.close()
print("\n".join(bad) if bad else "OK"); sys.exit(1 if bad else 0)
