"""UNCHANGED library: two specs can claim the same file.
(1) a spec moved from an absolute to a relative path keeps io group None, so the same
    model can create a second file entry at that relative path;
(2) 'd/x.xlsx' and 'd/../d/x.xlsx' are different keys but the same file.
In both cases the second write overwrites the first and 'a' is not read back equal."""
import sys, tempfile, pathlib, pandas as pd, modelx as mx
bad = []
td = pathlib.Path(tempfile.mkdtemp())
a = pd.DataFrame({"a": [1, 2]}); b = pd.DataFrame({"b": [3, 4]})

m = mx.new_model("PreLoc1")
m.new_pandas("a", td / "abs.xlsx", a, file_type="excel")
m.get_spec(a).path = "rel.xlsx"
try:
    m.new_pandas("b", "rel.xlsx", b, file_type="excel")
except ValueError:
    pass
else:
    m.write(td / "m1"); m.close()
    m = mx.read_model(td / "m1")
    if not m.a.equals(a):
        bad.append("(1) two specs at rel.xlsx; 'a' read back differs")
m.close()

m = mx.new_model("PreLoc2")
m.new_pandas("a", "d/x.xlsx", a, file_type="excel")
try:
    m.new_pandas("b", "d/../d/x.xlsx", b, file_type="excel")
except ValueError:
    pass
else:
    m.write(td / "m2"); m.close()
    m = mx.read_model(td / "m2")
    if not m.a.equals(a):
        bad.append("(2) d/x.xlsx and d/../d/x.xlsx both accepted; 'a' read back differs")
m.close()
print("\n".join(bad) if bad else "OK"); sys.exit(1 if bad else 0)
