"""Observation (not repaired): a caller that handles its callee's error is not invalidated when a
reference the failed callee read *by name* changes, or when the failed callee's formula is replaced.
(Elements the failed callee had called, and references it read by attribute path, are handed over to
the handler since fix ee97ad4.)  Exits 1 while the behaviour is present."""
import sys
import modelx as mx

m = mx.new_model()
s = m.new_space("S")
s.x = 0


@mx.defcells(space=s)
def B():
    if x == 0:
        raise ValueError("zero")
    return 10


t = m.new_space("T")
t.S = s


@mx.defcells(space=t)
def A():
    try:
        return S.B()
    except Exception:
        return -1


assert A() == -1
s.x = 1                 # B no longer fails
got = A()
print("A() =", got)
if got != 10:
    print("VIOLATION: the handler keeps its fallback value")
    sys.exit(1)
print("OK")
