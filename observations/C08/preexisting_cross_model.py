"""Pre-existing (UNCHANGED library): a formula that calls a cells of ANOTHER
model gets its dependency recorded in the callee's model only.

 * caller.preds() does not list the element of the other model it called,
 * after the callee is cleared the caller's value is discarded, but the
   caller's own model graph still mentions the (now value-less) caller.

Exit 1 when the behaviour is present, 0 otherwise.
"""
import sys
import modelx as mx

problems = []

ma = mx.new_model("MA")
sa = ma.new_space("S")
mb = mx.new_model("MB")
sb = mb.new_space("S")


@mx.defcells(space=sb)
def src(x):
    return x * 2


sa.other = sb


@mx.defcells(space=sa)
def use(x):
    return other.src(x) + 1


assert use(1) == 3

preds = [(n.obj.fullname, n.args) for n in use.preds(1)]
if preds != [("MB.S.src", (1,))]:
    problems.append("use.preds(1) is %r although use(1) called MB.S.src(1)"
                    % preds)

foreign = [n for n in mb._impl.tracegraph.nodes
           if n[0].model is not mb._impl]
if foreign:
    problems.append("graph of MB holds elements of another model: %r"
                    % foreign)

src.clear_all()
for model in (ma, mb):
    for node in model._impl.tracegraph.nodes:
        if len(node) > 1 and not node[0].has_node(node[1]):
            problems.append(
                "after src.clear_all(): graph of %s still mentions %r, "
                "which holds no value" % (model.name, node))

ma.close()
mb.close()

if problems:
    print("PRE-EXISTING C08 VIOLATION")
    for p in problems:
        print(" -", p)
    sys.exit(1)
print("OK")
