"""Rule registry, findings, known-findings matching, evidence and exit codes."""
import json
import os
import time
import traceback

from .astutil import norm
from .index import Repo, AnalysisError
from .callgraph import CallGraph

VERIF = os.path.dirname(os.path.dirname(os.path.abspath(__file__)))
KNOWN_FILE = os.path.join(VERIF, "known_findings.json")

RULES = {}          # rule id -> RuleDef
BY_PROP = {}        # property -> [rule ids in registration order]


class RuleDef:
    def __init__(self, rid, prop, kind, title, template, min_instances, fn, also=()):
        self.id = rid
        self.prop = prop
        self.kind = kind
        self.title = title
        self.template = template
        self.min_instances = min_instances
        self.fn = fn
        self.also = tuple(also)    # other properties that list this rule too


def rule(rid, prop, kind, title, template="", min_instances=1, also=()):
    def deco(fn):
        rd = RuleDef(rid, prop, kind, title, template or (fn.__doc__ or "").strip(),
                     min_instances, fn, also)
        if rid in RULES:
            raise RuntimeError("duplicate rule id " + rid)
        RULES[rid] = rd
        BY_PROP.setdefault(prop, []).append(rid)
        for p in also:
            BY_PROP.setdefault(p, []).append(rid)
        return fn
    return deco


class Finding:
    def __init__(self, rule, construct, stmt, msg, loc, path=None):
        self.rule = rule
        self.construct = construct
        self.stmt = stmt
        self.msg = msg
        self.loc = loc
        self.path = path

    @property
    def key(self):
        return (self.rule, self.construct, self.stmt)

    def to_json(self):
        return {"rule": self.rule, "construct": self.construct, "stmt": self.stmt,
                "what": self.msg, "loc": self.loc, "path": self.path}

    def line(self):
        s = "%s %s %s : %s" % (self.loc, self.rule, self.construct, self.msg)
        if self.path:
            s += " [" + self.path + "]"
        return s


class _Skip(Exception):
    """A required construct is missing: the rule reported it and stops."""


class R:
    """Result builder handed to a rule function."""

    def __init__(self, rd):
        self.rd = rd
        self.instances = []     # human-readable instance descriptions
        self.findings = []
        self.slots = {}         # what the rule found in the source (tables, anchors)
        self.notes = []

    def inst(self, text):
        self.instances.append(text)

    def slot(self, name, value):
        self.slots[name] = value

    def note(self, text):
        self.notes.append(text)

    def bad(self, fi, node, msg, path=None, stmt=None):
        """Record a violation at `node` of function `fi` (FuncInfo or str)."""
        construct = fi if isinstance(fi, str) else fi.short
        if stmt is None:
            stmt = norm(node) if node is not None else ""
        if isinstance(fi, str):
            loc = "%s" % fi if node is None else "%s:%s" % (fi, getattr(node, "lineno", "?"))
        else:
            loc = fi.loc(node)
        self.findings.append(Finding(self.rd.id, construct, stmt, msg, loc, path))

    def need(self, cond, msg):
        """Analysis precondition (anchor present, rule not vacuous): failure = ANALYSIS-ERROR."""
        if not cond:
            raise AnalysisError("%s: %s" % (self.rd.id, msg))

    def must(self, cond, msg, fi=None):
        """A construct the property requires inside an existing anchor function: its absence is
        a VIOLATION (e.g. the depth check was deleted), not an analysis error."""
        if not cond:
            self.inst("required construct: " + msg)
            self.bad(fi if fi is not None else self.rd.id, getattr(fi, "node", None),
                     "required construct is missing: " + msg, stmt="missing: " + msg)
            raise _Skip()


class Ctx:
    """Everything a rule may consult."""

    def __init__(self, repo=None, tier="quick"):
        self.repo = repo or Repo()
        self._cg = None
        self.tier = tier
        self.memo = {}

    @property
    def cg(self):
        if self._cg is None:
            self._cg = CallGraph(self.repo)
        return self._cg

    def func(self, spec, inherited=False):
        return self.repo.func(spec, inherited)

    def cls(self, spec):
        return self.repo.cls(spec)


def load_known():
    if not os.path.exists(KNOWN_FILE):
        return {"findings": [], "fixed": []}
    with open(KNOWN_FILE) as f:
        return json.load(f)


def run_rules(ctx, prop, only_rule=None):
    """Run every rule registered for `prop`.  -> (results, errors)"""
    results = []
    errors = []
    for rid in BY_PROP.get(prop, []):
        if only_rule and rid != only_rule:
            continue
        rd = RULES[rid]
        res = R(rd)
        try:
            try:
                rd.fn(ctx, res)
            except _Skip:
                pass
            if len(res.instances) < rd.min_instances and not res.findings:
                raise AnalysisError(
                    "%s: only %d instance(s) found, floor is %d (anchor moved or rule vacuous)"
                    % (rid, len(res.instances), rd.min_instances))
        except AnalysisError as e:
            errors.append("%s: %s" % (rid, e))
        except Exception:
            errors.append("%s: internal error\n%s" % (rid, traceback.format_exc()))
        results.append(res)
    return results, errors


def run_property(prop, tier="quick", seed=0, meta=None, ctx=None, write=True, extra=None):
    """Full check of one property: run rules, match known findings, write evidence.

    Returns the exit code (0 held / 1 violation / 2 analysis error)."""
    t0 = time.time()
    meta = meta or {}
    try:
        if ctx is None:
            ctx = Ctx(tier=tier)
    except AnalysisError as e:
        print("ANALYSIS-ERROR property=%s %s" % (prop, e))
        return 2
    results, errors = run_rules(ctx, prop)
    known = load_known()
    listed = {(k["rule"], k["construct"], k["stmt"]): k
              for k in known.get("findings", []) if k.get("property") == prop
              or prop in k.get("also", [])}
    unlisted = []
    matched = []
    for res in results:
        for f in res.findings:
            if f.key in listed:
                matched.append((f, listed[f.key]))
            else:
                unlisted.append(f)

    for f, k in matched:
        print("KNOWN-FINDING: property=%s %s %s: %s" % (prop, f.rule, f.construct, k.get("what", f.msg)))

    extra_out = {}
    extra_errors = []
    if extra is not None:
        try:
            extra_out = extra(ctx) or {}
            extra_errors = extra_out.pop("errors", [])
        except AnalysisError as e:
            extra_errors = [str(e)]
        except Exception:
            extra_errors = ["self-test internal error\n" + traceback.format_exc()]
    errors = errors + extra_errors

    n_inst = sum(len(r.instances) for r in results)
    distinct = len({(r.rd.id, i) for r in results for i in r.instances})
    samples = []
    for r in results:
        for i in r.instances[:3]:
            samples.append({"rule": r.rd.id, "instance": i})
    rules_out = []
    for r in results:
        rules_out.append({
            "rule": r.rd.id,
            "kind": r.rd.kind,
            "title": r.rd.title,
            "template": " ".join(r.rd.template.split()),
            "slots_found_in_source": r.slots,
            "instances": len(r.instances),
            "instance_floor": r.rd.min_instances,
            "violations": len(r.findings),
            "known_findings_matched": sum(1 for f in r.findings if f.key in listed),
            "notes": r.notes,
            "instance_list": r.instances[:60],
        })
    wall = time.time() - t0
    replay_path = None
    if unlisted:
        os.makedirs(os.path.join(VERIF, "replays"), exist_ok=True)
        replay_path = os.path.join(VERIF, "replays", "%s-%s.json" % (prop, tier))
        with open(replay_path, "w") as f:
            json.dump({"property": prop, "tier": tier,
                       "violations": [x.to_json() for x in unlisted],
                       "repo_digest": ctx.repo.digest}, f, indent=1)

    if write:
        ev = {
            "property_id": prop,
            "tier": tier,
            "seed": int(seed),
            "level": "other",
            "coverage": {
                "explanation": meta.get("explanation", ""),
                "evaluations": max(n_inst, 0),
                "distinct_nontrivial": distinct,
                "rule": "one evaluation = one rule instance (a concrete site, table row, path "
                        "obligation or abstract case found in /repo's current source and decided "
                        "by the rule); distinct = distinct (rule, instance) pairs; a rule with "
                        "fewer instances than its hand-confirmed floor fails the run",
                "samples": samples[:40],
                "exhaustive": True,
                "analysed": {
                    "repo_root": ctx.repo.root,
                    "repo_digest_sha256": ctx.repo.digest,
                    "modules": len(ctx.repo.modules),
                    "classes": sum(len(m.classes) for m in ctx.repo.modules.values()),
                    "functions": len(ctx.repo.funcs),
                    "call_graph": ctx.cg.stats() if ctx._cg is not None else "not needed by these rules",
                },
                "rules": rules_out,
                "not_decided": meta.get("not_decided", []),
                "known_findings_reported": [
                    {"rule": f.rule, "construct": f.construct, "what": k.get("what")}
                    for f, k in matched],
                "unlisted_violations": [x.to_json() for x in unlisted],
                "analysis_errors": errors,
            },
            "assumptions": meta.get("assumptions", []),
            "wall_s": round(wall, 3),
            "violations": len(unlisted),
        }
        ev["coverage"].update(extra_out)
        os.makedirs(os.path.join(VERIF, "evidence"), exist_ok=True)
        with open(os.path.join(VERIF, "evidence", "%s.json" % prop), "w") as f:
            json.dump(ev, f, indent=1, default=str)

    print("property=%s tier=%s rules=%d instances=%d violations=%d known=%d errors=%d wall=%.2fs"
          % (prop, tier, len(results), n_inst, len(unlisted), len(matched), len(errors), wall))
    for r in results:
        print("  %-8s %-5s inst=%-3d viol=%d  %s" % (r.rd.id, r.rd.kind, len(r.instances),
                                                    len(r.findings), r.rd.title))
    if "selftest" in extra_out:
        st = extra_out["selftest"]
        print("  self-test: %d mutants, %d built, %d detected, missed=%s, stale=%d"
              % (st["mutants_total"], st["mutants_built"], st["mutants_detected"],
                 st["mutants_missed"], len(st["mutants_stale"])))
        for d in st["detail"]:
            if d["status"] != "detected":
                print("    %-28s %s %s" % (d["id"], d["status"], d["rules"]))
    if "false_alarm_test" in extra_out:
        fa = extra_out["false_alarm_test"]
        print("  false-alarm test: %d behaviour-preserving variants, %d silent, %d not applicable, fired=%s"
              % (fa["behaviour_preserving_variants"], fa["silent"], fa["not_applicable"], [x["id"] for x in fa["fired"]]))
    if errors:
        for e in errors:
            print("ANALYSIS-ERROR property=%s %s" % (prop, e))
    if unlisted:
        for f in unlisted:
            print("  " + f.line())
        print("VIOLATION property=%s replay=%s" % (prop, replay_path))
        return 1
    if errors:
        return 2
    return 0
