"""Canonical form, step 0: a *newly extracted* private helper is folded back into its only caller.

Moving a block of a function into a private helper of the same class or module is the most common
clean-up there is, and it changes nothing a property can see.  The rules, however, are anchored on
named functions and would report the block as missing.  So before anything is indexed, a helper H
is inlined into its caller F when all of the following hold:

* H's name starts with one underscore and is **not part of the rules' vocabulary** (no rule module
  mentions it): the rules know every helper of today's tree that matters to them by name, so this
  condition selects helpers that did not exist when the rules were written, and leaves the anchors
  (`_store_value`, `_del_itemspace`, `_check_name_conflict`, ...) alone;
* every reference to H in the package is a call, all calls are in one function F of the same module,
  spelled `self.H(...)`, `cls.H(...)`, `<Class>.H(...)` or `H(...)`;
* H is a plain function or method (staticmethod allowed; no property, classmethod, generator, nested
  def, *args/**kwargs), and its body is straight-line at the top level: no `return` except an
  optional final `return <expr>` (a helper that returns from inside a loop or behind guard clauses is
  left alone - the rules that can follow such a helper do so themselves).

The call is replaced by H's body with the parameters bound to the arguments (simple arguments are
substituted, others are bound to fresh locals); H's locals that clash with F's names are renamed.
`MXSA_RAW=1` switches this off together with the rest of the canonical form.
"""
import ast
import copy
import glob
import os
import re

from .astutil import FUNC_TYPES

_VOCAB = None


def rules_vocabulary():
    global _VOCAB
    if _VOCAB is None:
        here = os.path.dirname(os.path.abspath(__file__))
        words = set()
        for p in glob.glob(os.path.join(here, "rules", "*.py")) + glob.glob(os.path.join(here, "*.py")):
            if os.path.basename(p) == "inline.py":
                continue
            with open(p) as f:
                words.update(re.findall(r"\b_[A-Za-z]\w*", f.read()))
        _VOCAB = frozenset(words)
    return _VOCAB


def _simple_arg(e):
    if isinstance(e, (ast.Name, ast.Constant)):
        return True
    if isinstance(e, ast.Attribute):
        return _simple_arg(e.value)
    return False


def _has_inner_return(body):
    """A `return` anywhere except as the last top-level statement; also yield / nested scopes."""
    for i, st in enumerate(body):
        last = i == len(body) - 1
        for n in ast.walk(st):
            if isinstance(n, (ast.Yield, ast.YieldFrom, ast.Await, ast.Global, ast.Nonlocal)):
                return True
            if isinstance(n, FUNC_TYPES + (ast.Lambda, ast.ClassDef)) and n is not st:
                return True
            if isinstance(n, ast.Return) and not (last and n is st):
                return True
        if isinstance(st, FUNC_TYPES + (ast.ClassDef,)):
            return True
    return False


class _Subst(ast.NodeTransformer):
    def __init__(self, mapping, rename):
        self.mapping, self.rename = mapping, rename

    def visit_Name(self, node):
        if node.id in self.mapping and isinstance(node.ctx, ast.Load):
            return copy.deepcopy(self.mapping[node.id])
        if node.id in self.rename:
            return ast.copy_location(ast.Name(id=self.rename[node.id], ctx=node.ctx), node)
        return node


def _functions(tree):
    """[(funcdef, classdef or None)] - module level functions and methods (one class level)."""
    out = []
    for st in tree.body:
        if isinstance(st, FUNC_TYPES):
            out.append((st, None))
        elif isinstance(st, ast.ClassDef):
            for m in st.body:
                if isinstance(m, FUNC_TYPES):
                    out.append((m, st))
    return out


def _all_functions(tree):
    return [n for n in ast.walk(tree) if isinstance(n, FUNC_TYPES)]


def inline_new_helpers(trees):
    """trees: {module name: ast.Module}.  Mutates the trees in place; returns [(module, helper, caller)]."""
    vocab = rules_vocabulary()
    done = []
    # name -> number of definitions in the package (a helper name must be unique to be followed by name)
    defs = {}
    for mod, tree in trees.items():
        for fn in _all_functions(tree):
            defs[fn.name] = defs.get(fn.name, 0) + 1
    # all references by attribute / name, package wide
    refs = {}
    for mod, tree in trees.items():
        for n in ast.walk(tree):
            if isinstance(n, ast.Attribute) and n.attr.startswith("_") and not n.attr.startswith("__"):
                refs.setdefault(n.attr, []).append((mod, n))
            elif isinstance(n, ast.Name) and isinstance(n.ctx, ast.Load) and n.id.startswith("_") and not n.id.startswith("__"):
                refs.setdefault(n.id, []).append((mod, n))
            elif isinstance(n, ast.Constant) and isinstance(n.value, str) and n.value.startswith("_") and n.value.isidentifier():
                refs.setdefault(n.value, []).append((mod, n))       # getattr(obj, "_name")
    for mod, tree in trees.items():
        for h, hcls in _functions(tree):
            nm = h.name
            if not nm.startswith("_") or nm.startswith("__") or nm in vocab or defs.get(nm) != 1:
                continue
            decos = [ast.unparse(d) for d in h.decorator_list]
            static = decos == ["staticmethod"]
            if decos and not static:
                continue
            a = h.args
            if a.vararg or a.kwarg or a.kwonlyargs or a.posonlyargs:
                continue
            body = list(h.body)
            if body and isinstance(body[0], ast.Expr) and isinstance(body[0].value, ast.Constant) and isinstance(body[0].value.value, str):
                body = body[1:]
            loop_form = False
            if body and _has_inner_return(body):
                single = _single_exit(body, "__ret_" + nm.strip("_"))
                if single is not None:
                    body = single + [ast.Return(value=ast.Name(id="__ret_" + nm.strip("_"), ctx=ast.Load()))]
            if body and _has_inner_return(body):
                # `while/for ...: ... return X` as the last statement: the returns leave the loop with the result
                pre_, lp_ = body[:-1], body[-1]
                if isinstance(lp_, (ast.While, ast.For)) and not lp_.orelse and not _has_inner_return(pre_ + [ast.Pass()]) \
                        and _returns_only_in(lp_):
                    loop_form = True
                else:
                    continue
            if not body:
                continue
            if loop_form:
                rs = refs.get(nm, [])
                if _inline_loop_helper(tree, h, hcls, static, body, rs, mod):
                    done.append((mod, nm, "<loop form>"))
                    holder = hcls.body if hcls is not None else tree.body
                    holder.remove(h)
                continue
            ret = body[-1].value if isinstance(body[-1], ast.Return) else None
            stmts = body[:-1] if isinstance(body[-1], ast.Return) else body
            if isinstance(body[-1], ast.Return) and body[-1].value is None:
                ret = None
            # every reference is a call, in one function of this module
            rs = refs.get(nm, [])
            if not rs or any(m != mod for m, _ in rs):
                continue
            callers = {}
            ok = True
            pm = {}
            for f_ in _all_functions(tree):
                for x in ast.walk(f_):
                    for ch in ast.iter_child_nodes(x):
                        pm[ch] = x
            for _, r in rs:
                par = pm.get(r)
                if not (isinstance(par, ast.Call) and par.func is r):
                    ok = False
                    break
                if isinstance(r, ast.Attribute):
                    recv = r.value
                    if not (isinstance(recv, ast.Name) and (recv.id in ("self", "cls") or (hcls is not None and recv.id == hcls.name))):
                        ok = False
                        break
                # enclosing function (innermost)
                f_ = par
                while f_ is not None and not isinstance(f_, FUNC_TYPES):
                    f_ = pm.get(f_)
                if f_ is None or f_ is h:
                    ok = False
                    break
                callers.setdefault(id(f_), (f_, []))[1].append(par)
            if not ok or len(callers) != 1:
                continue
            caller, calls = list(callers.values())[0]
            params = [p.arg for p in a.args]
            is_method = hcls is not None and not static
            assigned = {x.id for st in stmts for x in ast.walk(st) if isinstance(x, ast.Name) and isinstance(x.ctx, (ast.Store, ast.Del))}
            caller_names = {x.id for x in ast.walk(caller) if isinstance(x, ast.Name)} | {p.arg for p in caller.args.args}
            if _inline_calls(caller, calls, h, params, is_method, stmts, ret, assigned, caller_names):
                done.append((mod, nm, caller.name))
                # the helper has no reference left: it is not part of the canonical program
                holder = hcls.body if hcls is not None else tree.body
                holder.remove(h)
                if not holder:
                    holder.append(ast.copy_location(ast.Pass(), h))
    return done


def _inline_calls(caller, calls, h, params, is_method, stmts, ret, assigned, caller_names):
    pm = {}
    for x in ast.walk(caller):
        for ch in ast.iter_child_nodes(x):
            pm[ch] = x
    plans = []
    for call in calls:
        if call.keywords and any(k.arg is None for k in call.keywords):
            return False
        if any(isinstance(x, ast.Starred) for x in call.args):
            return False
        # bind arguments
        ps = params[1:] if is_method else params
        if len(call.args) > len(ps):
            return False
        bound = dict(zip(ps, call.args))
        for k in call.keywords:
            if k.arg not in ps or k.arg in bound:
                return False
            bound[k.arg] = k.value
        defaults = h.args.defaults
        for p, dflt in zip(ps[len(ps) - len(defaults):], defaults):
            bound.setdefault(p, dflt)
        if set(bound) != set(ps):
            return False
        mapping, pre = {}, []
        if is_method:
            mapping[params[0]] = call.func.value
        for p, arg in bound.items():
            reassigned = p in assigned
            if _simple_arg(arg) and not reassigned:
                mapping[p] = arg
            else:
                fresh = p if p not in caller_names else p + "__" + h.name.strip("_")
                pre.append(ast.Assign(targets=[ast.Name(id=fresh, ctx=ast.Store())], value=arg))
                if fresh != p:
                    mapping[p] = ast.Name(id=fresh, ctx=ast.Load())
        rename = {n: n + "__" + h.name.strip("_") for n in assigned if n in caller_names and n not in params}
        # context: the statement that contains the call
        st = call
        while not isinstance(st, ast.stmt):
            st = pm[st]
        direct = (isinstance(st, (ast.Expr, ast.Assign, ast.Return, ast.AugAssign, ast.AnnAssign)) and getattr(st, "value", None) is call) \
            or (isinstance(st, ast.Raise) and st.exc is call) \
            or (isinstance(st, (ast.For, ast.AsyncFor)) and st.iter is call) \
            or (isinstance(st, ast.If) and st.test is call)
        if not direct and stmts:
            return False            # a call nested in an expression can only take an expression helper
        if ret is None and not (isinstance(st, ast.Expr) and st.value is call):
            return False            # value of a procedure used
        plans.append((call, st, mapping, rename, pre, direct))
    for call, st, mapping, rename, pre, direct in plans:
        sub = _Subst(mapping, rename)
        new_body = [sub.visit(copy.deepcopy(s)) for s in stmts]
        new_ret = sub.visit(copy.deepcopy(ret)) if ret is not None else None
        for s in pre + new_body + ([new_ret] if new_ret is not None else []):
            for x in ast.walk(s):
                ast.copy_location(x, call)
        # replace
        holder = pm[st]
        for field in ("body", "orelse", "finalbody"):
            lst = getattr(holder, field, None)
            if isinstance(lst, list) and st in lst:
                i = lst.index(st)
                repl = pre + new_body
                if new_ret is not None:
                    _replace_child(st, call, new_ret)
                    repl = repl + [st]
                elif not (isinstance(st, ast.Expr) and st.value is call):
                    return False
                lst[i:i + 1] = repl or [ast.copy_location(ast.Pass(), st)]
                break
        else:
            if isinstance(holder, ast.ExceptHandler) and st in holder.body:
                i = holder.body.index(st)
                repl = pre + new_body
                if new_ret is not None:
                    _replace_child(st, call, new_ret)
                    repl = repl + [st]
                holder.body[i:i + 1] = repl or [ast.copy_location(ast.Pass(), st)]
            else:
                return False
    ast.fix_missing_locations(caller)
    return True


def _replace_child(parent_stmt, old, new):
    for x in ast.walk(parent_stmt):
        for field, val in ast.iter_fields(x):
            if val is old:
                setattr(x, field, new)
                return
            if isinstance(val, list):
                for i, v in enumerate(val):
                    if v is old:
                        val[i] = new
                        return


def _returns_only_in(loop):
    """Every `return <expr>` of the loop is in the loop's own body (not in a nested loop / def), with a value."""
    def walk(stmts, depth):
        for st in stmts:
            if isinstance(st, ast.Return):
                if st.value is None or depth:
                    return False
            elif isinstance(st, (ast.For, ast.While)):
                if not walk(st.body, depth + 1) or not walk(st.orelse, depth + 1):
                    return False
            elif isinstance(st, FUNC_TYPES + (ast.ClassDef,)):
                return False
            else:
                for field in ("body", "orelse", "finalbody"):
                    sub = getattr(st, field, None)
                    if isinstance(sub, list) and sub and isinstance(sub[0], ast.stmt):
                        if not walk(sub, depth):
                            return False
                if isinstance(st, ast.Try):
                    for h in st.handlers:
                        if not walk(h.body, depth):
                            return False
            for n in ast.walk(st):
                if isinstance(n, (ast.Yield, ast.YieldFrom, ast.Await, ast.Global, ast.Nonlocal, ast.Lambda)):
                    return False
        return True
    return walk(loop.body, 0) and any(isinstance(n, ast.Return) for n in ast.walk(loop))


class _RetToAssign(ast.NodeTransformer):
    def __init__(self, target):
        self.target = target

    def visit_Return(self, node):
        a = ast.Assign(targets=[ast.Name(id=self.target, ctx=ast.Store())], value=node.value)
        return [ast.copy_location(a, node), ast.copy_location(ast.Break(), node)]

    def visit_FunctionDef(self, node):
        return node

    visit_AsyncFunctionDef = visit_Lambda = visit_FunctionDef


def _inline_loop_helper(tree, h, hcls, static, body, rs, mod):
    """`T = self.H(args)` where H ends in a loop that returns its result: the loop is put in place of the
    statement, every `return X` becomes `T = X; break`."""
    if len(rs) != 1 or rs[0][0] != mod:
        return False
    r = rs[0][1]
    pm = {}
    for x in ast.walk(tree):
        for ch in ast.iter_child_nodes(x):
            pm[ch] = x
    call = pm.get(r)
    if not (isinstance(call, ast.Call) and call.func is r) or call.keywords or any(isinstance(a, ast.Starred) for a in call.args):
        return False
    if isinstance(r, ast.Attribute) and not (isinstance(r.value, ast.Name) and r.value.id in ("self", "cls")):
        return False
    st = pm.get(call)
    if not (isinstance(st, ast.Assign) and st.value is call and len(st.targets) == 1 and isinstance(st.targets[0], ast.Name)):
        return False
    a = h.args
    params = [p.arg for p in a.args]
    is_method = hcls is not None and not static
    ps = params[1:] if is_method else params
    if len(call.args) != len(ps) or not all(_simple_arg(x) for x in call.args):
        return False
    assigned = {x.id for s_ in body for x in ast.walk(s_) if isinstance(x, ast.Name) and isinstance(x.ctx, ast.Store)}
    if assigned & set(ps):
        return False
    caller = st
    while caller is not None and not isinstance(caller, FUNC_TYPES):
        caller = pm.get(caller)
    if caller is None or caller is h:
        return False
    tgt = st.targets[0].id
    caller_names = {x.id for x in ast.walk(caller) if isinstance(x, ast.Name)} | {p.arg for p in caller.args.args}
    rename = {n: n + "__" + h.name.strip("_") for n in assigned if n in caller_names and n != tgt}
    mapping = dict(zip(ps, call.args))
    if is_method:
        mapping[params[0]] = r.value
    sub = _Subst(mapping, rename)
    new_body = []
    for s_ in body:
        s2 = sub.visit(copy.deepcopy(s_))
        s2 = _RetToAssign(tgt).visit(s2)
        new_body.extend(s2 if isinstance(s2, list) else [s2])
    for s_ in new_body:
        for x in ast.walk(s_):
            ast.copy_location(x, call)
    holder = pm[st]
    for field in ("body", "orelse", "finalbody"):
        lst = getattr(holder, field, None)
        if isinstance(lst, list) and st in lst:
            i = lst.index(st)
            lst[i:i + 1] = new_body
            ast.fix_missing_locations(caller)
            return True
    return False


class _Unsupported(Exception):
    pass


def _has_return(st):
    return any(isinstance(n, ast.Return) for n in ast.walk(st)) and not isinstance(st, FUNC_TYPES + (ast.ClassDef,))


def _always_returns(stmts):
    if not stmts:
        return False
    last = stmts[-1]
    if isinstance(last, (ast.Return, ast.Raise)):
        return True
    if isinstance(last, ast.If) and last.orelse:
        return _always_returns(last.body) and _always_returns(last.orelse)
    return False


def _single_exit(body, target):
    """Straight-line / if-structured body with early returns -> the same statements with every `return X`
    turned into `target = X` in tail position (guard clauses become if/else).  None when a return sits in a
    loop, try or with (those helpers are left alone).  Loop followed by a final `return X`: for/else."""
    def elim(stmts):
        out = []
        for i, st in enumerate(stmts):
            if isinstance(st, ast.Return):
                v = st.value if st.value is not None else ast.Constant(value=None)
                out.append(ast.copy_location(ast.Assign(targets=[ast.Name(id=target, ctx=ast.Store())], value=v), st))
                return out
            if isinstance(st, ast.If) and _has_return(st):
                rest = stmts[i + 1:]
                b = elim(list(st.body) + ([] if _always_returns(st.body) else copy.deepcopy(rest)))
                o = elim(list(st.orelse) + ([] if (st.orelse and _always_returns(st.orelse)) else copy.deepcopy(rest)))
                new = ast.If(test=st.test, body=b or [ast.Pass()], orelse=o)
                out.append(ast.copy_location(new, st))
                return out
            if isinstance(st, (ast.For, ast.While)) and _has_return(st) and not st.orelse and _returns_only_in(st) \
                    and i == len(stmts) - 2 and isinstance(stmts[-1], ast.Return):
                lp = copy.deepcopy(st)
                r2 = _RetToAssign(target).visit(lp)
                lp = r2[0] if isinstance(r2, list) else r2
                fin = stmts[-1].value if stmts[-1].value is not None else ast.Constant(value=None)
                lp.orelse = [ast.copy_location(ast.Assign(targets=[ast.Name(id=target, ctx=ast.Store())], value=fin), stmts[-1])]
                out.append(lp)
                return out
            if _has_return(st):
                raise _Unsupported()
            out.append(st)
        # fell off the end: the helper returns None
        out.append(ast.Assign(targets=[ast.Name(id=target, ctx=ast.Store())], value=ast.Constant(value=None)))
        return out
    try:
        res = elim(list(body))
    except _Unsupported:
        return None
    for s_ in res:
        ast.fix_missing_locations(s_)
    return res
