"""Small AST helpers shared by the engine and the rules."""
import ast

FUNC_TYPES = (ast.FunctionDef, ast.AsyncFunctionDef)
SCOPE_TYPES = (ast.FunctionDef, ast.AsyncFunctionDef, ast.Lambda, ast.ClassDef)


def dotted(expr):
    """'self.model.tracegraph' for an attribute chain rooted in a Name, else None.

    Calls in the chain are rendered as 'f()' so that `super().m` gives
    'super().m'; subscripts as 'x[]'."""
    parts = []
    e = expr
    while True:
        if isinstance(e, ast.Attribute):
            parts.append(e.attr)
            e = e.value
        elif isinstance(e, ast.Name):
            parts.append(e.id)
            break
        elif isinstance(e, ast.Call):
            inner = dotted(e.func)
            if inner is None:
                return None
            parts.append(inner + "()")
            break
        elif isinstance(e, ast.Subscript):
            inner = dotted(e.value)
            if inner is None:
                return None
            parts.append(inner + "[]")
            break
        else:
            return None
    return ".".join(reversed(parts))


def unparse(node):
    try:
        return ast.unparse(node)
    except Exception:  # pragma: no cover
        return "<%s>" % type(node).__name__


def norm(node):
    """Normalised text of a statement/expression (header only for compound)."""
    if isinstance(node, ast.If):
        return "if " + unparse(node.test)
    if isinstance(node, ast.While):
        return "while " + unparse(node.test)
    if isinstance(node, (ast.For, ast.AsyncFor)):
        return "for %s in %s" % (unparse(node.target), unparse(node.iter))
    if isinstance(node, (ast.With, ast.AsyncWith)):
        return "with " + ", ".join(unparse(i) for i in node.items)
    if isinstance(node, ast.Try):
        return "try"
    if isinstance(node, FUNC_TYPES):
        return "def " + node.name
    if isinstance(node, ast.ClassDef):
        return "class " + node.name
    if isinstance(node, ast.ExceptHandler):
        return "except " + (unparse(node.type) if node.type else "")
    return " ".join(unparse(node).split())


def walk_local(node, include_root=True):
    """ast.walk that does not descend into nested function/class/lambda bodies.

    The nested definition node itself is yielded (so a `def` statement is
    seen) but not its body."""
    stack = [node]
    first = True
    while stack:
        n = stack.pop()
        if not first or include_root:
            yield n
        if not first and isinstance(n, SCOPE_TYPES):
            continue
        first = False
        stack.extend(reversed(list(ast.iter_child_nodes(n))))


def walk_body(stmts):
    for s in stmts:
        # a nested def in the list is yielded but not entered
        if isinstance(s, SCOPE_TYPES):
            yield s
            continue
        yield from walk_local(s)


def calls_in(node):
    return [n for n in walk_local(node) if isinstance(n, ast.Call)]


def call_name(call):
    """Last component of the callee: `a.b.c(...)` -> 'c', `f(...)` -> 'f'."""
    if not isinstance(call, ast.Call):
        return None
    f = call.func
    if isinstance(f, ast.Attribute):
        return f.attr
    if isinstance(f, ast.Name):
        return f.id
    return None


def call_recv(call):
    """Dotted receiver of a method call (`a.b.c()` -> 'a.b'), or None."""
    if not isinstance(call, ast.Call):
        return None
    f = call.func
    if isinstance(f, ast.Attribute):
        return dotted(f.value)
    return None


def kwarg(call, name):
    for k in call.keywords:
        if k.arg == name:
            return k.value
    return None


def arg_or_kw(call, pos, name):
    if pos is not None and len(call.args) > pos:
        a = call.args[pos]
        if not isinstance(a, ast.Starred):
            return a
    return kwarg(call, name)


def const_value(node, default=None):
    if isinstance(node, ast.Constant):
        return node.value
    return default


def is_name(node, name):
    return isinstance(node, ast.Name) and node.id == name


def names_in(node):
    return {n.id for n in ast.walk(node) if isinstance(n, ast.Name)}


def stmt_of(func_node, target):
    """The top-most *simple or header* statement of func_node containing target."""
    best = None
    for s in ast.walk(func_node):
        if isinstance(s, ast.stmt) and s is not func_node:
            if s.lineno <= target.lineno <= getattr(s, "end_lineno", s.lineno):
                for sub in ast.walk(s):
                    if sub is target:
                        if best is None or (s.lineno >= best.lineno and
                                            s.end_lineno <= best.end_lineno):
                            best = s
                        break
    return best


def parents_map(root):
    pm = {}
    for n in ast.walk(root):
        for c in ast.iter_child_nodes(n):
            pm[c] = n
    return pm


def enclosing(pm, node, types):
    n = pm.get(node)
    while n is not None:
        if isinstance(n, types):
            return n
        n = pm.get(n)
    return None


def ancestors(pm, node):
    n = pm.get(node)
    while n is not None:
        yield n
        n = pm.get(n)


def in_loop(pm, node, stop):
    """Innermost enclosing For/While of node inside `stop` (a function node)."""
    for a in ancestors(pm, node):
        if a is stop:
            return None
        if isinstance(a, SCOPE_TYPES):
            return None
        if isinstance(a, (ast.For, ast.While, ast.AsyncFor)):
            return a
    return None
