"""Thorough tier: mutation self-test of the rules.

Every mutant is one small edit of /repo's *current* source, computed on the fly and
analysed in memory through Repo(overlay=...) - nothing is written to disk.  Each mutant
still compiles.  A mutant is *detected* when the property's rules report a violation
that the unmodified tree does not have.  An undetected mutant fails the thorough run
(exit 2): the sensitivity claimed in the evidence is measured, not asserted.

A mutant whose anchor text is no longer present (because /repo was edited) is reported
as `stale` and skipped - it says nothing about the property.
"""
import ast
import importlib
import os
import re
import textwrap
from concurrent.futures import ProcessPoolExecutor

from .index import Repo, AnalysisError
from .framework import Ctx, run_rules, load_known


class Mutant:
    def __init__(self, mid, prop, func, find, repl, why, expect=None, count=1, file=None):
        self.id = mid
        self.prop = prop
        self.func = func      # function spec ('CallStack.pop') or None for module-level
        self.find = find      # exact text inside the function's source (whitespace-normalised per line)
        self.repl = repl
        self.why = why
        self.expect = expect  # rule id expected to fire (None: any rule of the property)
        self.count = count
        self.file = file      # module suffix when func is None


def M(mid, prop, func, find, repl, why, expect=None, count=1, file=None):
    return Mutant(mid, prop, func, find, repl, why, expect, count, file)


def build_overlay(repo, m):
    """-> {relpath: new source} or raises AnalysisError('stale ...')"""
    if m.func is not None:
        fi = repo.func(m.func)
        mi = fi.module
        lines = mi.src.split("\n")
        lo, hi = fi.node.lineno - 1, fi.node.end_lineno
        if fi.node.decorator_list:
            lo = min(d.lineno for d in fi.node.decorator_list) - 1
    else:
        mi = repo.module(m.file)
        lines = mi.src.split("\n")
        lo, hi = 0, len(lines)
    seg = "\n".join(lines[lo:hi]) + "\n"
    n = seg.count(m.find)
    if n != m.count:
        raise AnalysisError("stale mutant %s: anchor text occurs %d time(s) in %s, expected %d"
                            % (m.id, n, m.func or m.file, m.count))
    seg2 = seg.replace(m.find, m.repl)
    if seg2.endswith("\n"):
        seg2 = seg2[:-1]
    new = "\n".join(lines[:lo] + seg2.split("\n") + lines[hi:])
    try:
        compile(new, mi.relpath, "exec")
    except SyntaxError as e:
        raise AnalysisError("mutant %s does not compile: %s" % (m.id, e))
    return {mi.relpath: new}


def _finding_keys(ctx, prop):
    results, errors = run_rules(ctx, prop)
    keys = set()
    for r in results:
        for f in r.findings:
            keys.add(f.key)
    return keys, errors


def _run_one(args):
    root, prop, m_index, base_keys = args
    from . import rules as _rules
    _rules.load()
    cat = catalogue(prop)
    m = cat[m_index]
    try:
        base = Repo(root)
        ov = build_overlay(base, m)
    except AnalysisError as e:
        return (m.id, "stale", str(e), [])
    try:
        ctx = Ctx(repo=Repo(root, overlay=ov), tier="quick")
        keys, errors = _finding_keys(ctx, prop)
    except AnalysisError as e:
        return (m.id, "error-only", str(e), [])
    new = sorted(k for k in keys if k not in base_keys)
    if new:
        rules_hit = sorted({k[0] for k in new})
        if m.expect and m.expect not in rules_hit:
            return (m.id, "detected-other-rule", "expected %s, fired %s" % (m.expect, rules_hit), rules_hit)
        return (m.id, "detected", "", rules_hit)
    if errors:
        return (m.id, "error-only", "; ".join(errors)[:300], [])
    return (m.id, "MISSED", m.why, [])


def catalogue(prop):
    try:
        mod = importlib.import_module("mxsa.mutants." + prop.lower())
    except ModuleNotFoundError:
        return []
    return list(getattr(mod, "MUTANTS", []))


def _patch_overlay(root, patch):
    """{relpath: patched source} for a unified diff against `root`, or None when it does not apply."""
    import shutil, subprocess, tempfile
    files = re.findall(r"^\+\+\+ b/(\S+)", open(patch).read(), re.M)
    tmp = tempfile.mkdtemp(prefix="mxsa_bp_")
    try:
        for f in files:
            os.makedirs(os.path.dirname(os.path.join(tmp, f)), exist_ok=True)
            shutil.copy(os.path.join(root, f), os.path.join(tmp, f))
        r = subprocess.run(["patch", "-p1", "-s", "-d", tmp, "-i", os.path.abspath(patch)], capture_output=True, text=True)
        if r.returncode != 0:
            return None
        return {f: open(os.path.join(tmp, f)).read() for f in files}
    finally:
        shutil.rmtree(tmp, ignore_errors=True)


def _run_benign(args):
    """One behaviour-preserving variant: the property's rules must stay silent."""
    root, prop, kind, ref, base_keys = args
    from . import rules as _rules
    _rules.load()
    try:
        if kind == "variant":
            from .benign import VARIANTS
            m = VARIANTS[ref]
            name = m.id
            ov = build_overlay(Repo(root), m)
        else:
            name = os.path.relpath(ref, os.path.dirname(os.path.dirname(ref)))
            ov = _patch_overlay(root, ref)
            if ov is None:
                return (name, "stale", [])
        ctx = Ctx(repo=Repo(root, overlay=ov), tier="quick")
        keys, errors = _finding_keys(ctx, prop)
    except AnalysisError as e:
        return (locals().get("name", str(ref)), "stale", [str(e)[:120]])
    new = sorted(k for k in keys if k not in base_keys)
    if new or errors:
        return (name, "fired", ["%s %s" % (k[0], k[1]) for k in new] + [e[:120] for e in errors])
    return (name, "silent", [])


def run_benign(prop, ctx, base_keys, jobs):
    import glob
    from .benign import VARIANTS
    here = os.path.dirname(os.path.dirname(os.path.abspath(__file__)))
    patches = sorted(glob.glob(os.path.join(here, "benign_patches", "*", "*.diff")))
    args = [(ctx.repo.root, prop, "variant", i, base_keys) for i in range(len(VARIANTS))] + \
           [(ctx.repo.root, prop, "patch", p_, base_keys) for p_ in patches]
    with ProcessPoolExecutor(max_workers=jobs) as ex:
        out = list(ex.map(_run_benign, args))
    fired = [o for o in out if o[1] == "fired"]
    return {"behaviour_preserving_variants": len(out),
            "silent": sum(1 for o in out if o[1] == "silent"),
            "not_applicable": sum(1 for o in out if o[1] == "stale"),
            "fired": [{"id": o[0], "reports": o[2]} for o in fired]}


def run_for(prop, ctx, jobs=None):
    cat = catalogue(prop)
    base_keys, _ = _finding_keys(ctx, prop)
    jobs = jobs or min(16, os.cpu_count() or 4)
    out = []
    if cat:
        args = [(ctx.repo.root, prop, i, base_keys) for i in range(len(cat))]
        with ProcessPoolExecutor(max_workers=jobs) as ex:
            out = list(ex.map(_run_one, args))
    detected = [o for o in out if o[1].startswith("detected")]
    missed = [o for o in out if o[1] == "MISSED"]
    erronly = [o for o in out if o[1] == "error-only"]
    stale = [o for o in out if o[1] == "stale"]
    errors = []
    for mid, st, why, _ in missed:
        errors.append("self-test: mutant %s NOT detected (%s)" % (mid, why))
    for mid, st, why, _ in erronly:
        errors.append("self-test: mutant %s only produced an analysis error (%s)" % (mid, why))
    by_id = {m.id: m for m in cat}
    benign = run_benign(prop, ctx, base_keys, jobs)
    return {
        "errors": errors,
        "false_alarm_test": benign,
        "selftest": {
            "mutants_total": len(cat),
            "mutants_built": len(cat) - len(stale),
            "mutants_detected": len(detected),
            "mutants_missed": [o[0] for o in missed],
            "mutants_stale": [{"id": o[0], "why": o[2]} for o in stale],
            "detail": [{"id": o[0], "status": o[1], "rules": o[3],
                        "edit": "%s: `%s` -> `%s`" % (by_id[o[0]].func or by_id[o[0]].file,
                                                      by_id[o[0]].find.strip()[:80],
                                                      by_id[o[0]].repl.strip()[:80]),
                        "breaks": by_id[o[0]].why} for o in out],
        },
    }
