"""Query helpers used by the rules (thin layer over ast / CFG / call graph)."""
import ast

from .astutil import (walk_local, dotted, call_name, call_recv, norm, unparse, FUNC_TYPES,
                      enclosing, ancestors)
from .index import AnalysisError


# ---- finding constructs in a function -------------------------------------

def calls(fi, name=None, recv=None, recv_endswith=None, pred=None):
    """Call nodes inside function `fi` (not nested defs) by method name / receiver."""
    out = []
    for n in walk_local(fi.node):
        if not isinstance(n, ast.Call):
            continue
        if name is not None:
            nm = call_name(n)
            if isinstance(name, (set, frozenset, tuple, list)):
                if nm not in name:
                    continue
            elif nm != name:
                continue
        r = call_recv(n)
        if recv is not None and r != recv:
            continue
        if recv_endswith is not None and not (r is not None and (
                r == recv_endswith or r.endswith("." + recv_endswith))):
            continue
        if pred is not None and not pred(n):
            continue
        out.append(n)
    out.sort(key=lambda n: (n.lineno, n.col_offset))
    return out


def attr_writes(fi, attr=None, recv=None, recv_endswith=None):
    """(stmt, target) for every assignment / augmented assignment / deletion whose
    target is an attribute `<recv>.<attr>`."""
    out = []
    for n in walk_local(fi.node):
        targets = []
        if isinstance(n, ast.Assign):
            for t in n.targets:
                targets.extend(_flatten_targets(t))
        elif isinstance(n, (ast.AugAssign, ast.AnnAssign)):
            targets = [n.target]
        elif isinstance(n, ast.Delete):
            targets = list(n.targets)
        else:
            continue
        for t in targets:
            if isinstance(t, ast.Attribute):
                if attr is not None:
                    if isinstance(attr, (set, frozenset, tuple, list)):
                        if t.attr not in attr:
                            continue
                    elif t.attr != attr:
                        continue
                r = dotted(t.value)
                if recv is not None and r != recv:
                    continue
                if recv_endswith is not None and not (
                        r is not None and (r == recv_endswith or r.endswith("." + recv_endswith))):
                    continue
                out.append((n, t))
    out.sort(key=lambda p: (p[0].lineno, p[0].col_offset))
    return out


def subscript_writes(fi, container_attr=None):
    """(stmt, target Subscript) for `<x>.<container_attr>[k] = v`, `del <x>.<attr>[k]`,
    and augmented forms.  container_attr None matches any."""
    out = []
    for n in walk_local(fi.node):
        targets = []
        if isinstance(n, ast.Assign):
            for t in n.targets:
                targets.extend(_flatten_targets(t))
        elif isinstance(n, ast.AugAssign):
            targets = [n.target]
        elif isinstance(n, ast.Delete):
            targets = list(n.targets)
        else:
            continue
        for t in targets:
            if isinstance(t, ast.Subscript):
                v = t.value
                nm = v.attr if isinstance(v, ast.Attribute) else (v.id if isinstance(v, ast.Name) else None)
                if container_attr is None or nm == container_attr or (
                        isinstance(container_attr, (set, frozenset, tuple, list)) and nm in container_attr):
                    out.append((n, t))
    out.sort(key=lambda p: (p[0].lineno, p[0].col_offset))
    return out


def _flatten_targets(t):
    if isinstance(t, (ast.Tuple, ast.List)):
        out = []
        for e in t.elts:
            out.extend(_flatten_targets(e))
        return out
    if isinstance(t, ast.Starred):
        return _flatten_targets(t.value)
    return [t]


def raises(fi, exc_name=None):
    out = []
    for n in walk_local(fi.node):
        if isinstance(n, ast.Raise):
            if exc_name is None:
                out.append(n)
            else:
                e = n.exc
                nm = None
                if isinstance(e, ast.Call):
                    nm = dotted(e.func)
                elif e is not None:
                    nm = dotted(e)
                if nm is not None and nm.split(".")[-1] == exc_name:
                    out.append(n)
    return out


def returns(fi):
    return [n for n in walk_local(fi.node) if isinstance(n, ast.Return)]


def tries(fi):
    return [n for n in walk_local(fi.node) if isinstance(n, ast.Try)]


def is_catch_all(handler):
    if handler.type is None:
        return True
    ts = handler.type.elts if isinstance(handler.type, ast.Tuple) else [handler.type]
    return any(isinstance(t, ast.Name) and t.id == "BaseException" for t in ts)


def handler_names(handler):
    if handler.type is None:
        return ["<bare>"]
    ts = handler.type.elts if isinstance(handler.type, ast.Tuple) else [handler.type]
    return [dotted(t) or unparse(t) for t in ts]


def reraises(handler):
    """The handler's every normal path ends in a `raise` (bare or of anything)."""
    last = handler.body[-1] if handler.body else None
    return isinstance(last, ast.Raise)


# ---- CFG conveniences ---------------------------------------------------------

def nodes_for(fi, ast_nodes):
    """CFG node ids that contain any of the given AST nodes (all finally-copies)."""
    cfg = fi.cfg
    out = []
    for a in (ast_nodes if isinstance(ast_nodes, (list, tuple, set)) else [ast_nodes]):
        ids = cfg.node_containing(a)
        if not ids:
            ids = cfg.nodes_of(a)
        if not ids:
            raise AnalysisError("no CFG node for %s in %s" % (norm(a)[:60], fi.short))
        for i in ids:
            if i not in out:
                out.append(i)
    return out


def dominated(fi, before_nodes, target_node, labels=None):
    """Every path from entry of fi to `target_node` (AST) passes one of `before_nodes` (AST)."""
    cfg = fi.cfg
    A = nodes_for(fi, list(before_nodes)) if before_nodes else []
    ok = True
    for b in nodes_for(fi, target_node):
        if not cfg.reachable(b):
            continue
        if not cfg.must_pass(A, b, labels=labels):
            ok = False
    return ok


def followed(fi, start_node, after_nodes, exits=None, labels=None):
    """Every path from `start_node` (AST) to an exit passes one of `after_nodes` (AST)."""
    cfg = fi.cfg
    B = nodes_for(fi, list(after_nodes)) if after_nodes else []
    for a in nodes_for(fi, start_node):
        if not cfg.reachable(a):
            continue
        if not cfg.always_followed(a, B, exits=exits, labels=labels):
            return False
    return True


def path_between(fi, a_node, b_node, avoid=(), labels=None):
    """Some path from AST node a to AST node b (any copies), avoiding AST nodes."""
    cfg = fi.cfg
    av = set(nodes_for(fi, list(avoid))) if avoid else set()
    for a in nodes_for(fi, a_node):
        for b in nodes_for(fi, b_node):
            if cfg.path_exists(a, b, avoid=av, labels=labels):
                return True
    return False


def test_nodes(fi, pred):
    """CFG test nodes whose operand expression satisfies pred(expr)."""
    return [n.id for n in fi.cfg.nodes if n.kind == "test" and pred(n.ast)]


def depends(fi, target_node, test_pred, label):
    """`target_node` executes only after some test operand matching test_pred came out `label`."""
    cfg = fi.cfg
    ts = test_nodes(fi, test_pred)
    if not ts:
        return False
    for b in nodes_for(fi, target_node):
        if not cfg.reachable(b):
            continue
        # cut the `label` edges of *all* matching tests: b must become unreachable
        r = cfg.reach([cfg.entry], avoid_edges={(t, label) for t in ts})
        if b in r:
            return False
    return True


def explain_path(fi, a_ids, b_ids, avoid=(), labels=None):
    cfg = fi.cfg
    for a in a_ids:
        for b in b_ids:
            p = cfg.find_path(a, b, avoid=avoid, labels=labels)
            if p:
                return cfg.describe_path(p)
    return None


# ---- expression predicates ------------------------------------------------------

def mentions_attr(expr, attr):
    return any(isinstance(n, ast.Attribute) and n.attr == attr for n in ast.walk(expr))


def mentions_name(expr, name):
    return any(isinstance(n, ast.Name) and n.id == name for n in ast.walk(expr))


def mentions_call(expr, name):
    return any(isinstance(n, ast.Call) and call_name(n) == name for n in ast.walk(expr))


def same_expr(a, b):
    return ast.dump(a) == ast.dump(b)


def text(n):
    return norm(n)


class GuardSet(set):
    """Set of (test text, label) pairs in the *resolved* spelling: pure alias locals that the canonical form
    leaves in place (snapshots such as `live = self.manager._graph`, `pred = self.idxstack[-1]`) are replaced
    by their definitions, so an extracted local does not change what a rule sees.  Membership and equality
    also accept the raw spelling (`raw`)."""

    def __init__(self, pairs=(), alt=None):
        alt = dict(alt or {})
        super().__init__(alt.get(p, p) for p in pairs)
        self.raw = set(pairs)
        self.alt = alt

    def resolved(self):
        return set(self)

    def __contains__(self, pair):
        return set.__contains__(self, pair) or pair in self.raw

    def __eq__(self, other):
        if isinstance(other, GuardSet):
            return set(self) == set(other)
        return set(self) == other or self.raw == other

    def __ne__(self, other):
        return not self.__eq__(other)

    __hash__ = None


def guards_of(fi, target_node, raw=False):
    """{(test text, 'T'|'F')}: the test outcomes every path from entry to target must take."""
    cfg = fi.cfg
    out = set()
    alt = {}
    ids = [b for b in nodes_for(fi, target_node) if cfg.reachable(b)]
    tests = {}
    for n in cfg.nodes:
        if n.kind == "test":
            tests.setdefault(norm(n.ast), []).append(n)
    for txt, ns in tests.items():
        ts = [n.id for n in ns]
        for lab in ("T", "F"):
            r = cfg.reach([cfg.entry], avoid_edges={(t, lab) for t in ts})
            if ids and all(b not in r for b in ids):
                out.add((txt, lab))
                if not raw:
                    alt[(txt, lab)] = (anorm(fi, ns[0].ast), lab)
    return GuardSet(out, alt)


def run_abstract(fi, outcome, starts=None):
    """Follow the CFG of fi with test outcomes fixed by `outcome(test_expr) -> 'T'|'F'|None`
    (None: both).  Exceptional edges are not followed.  -> set of reached node ids.
    A test the valuation does not know is offered again with its single-assignment locals
    resolved."""
    cfg = fi.cfg
    _orig = outcome

    def outcome(e):
        v = _orig(e)
        if v is None and single_defs(fi):
            v = _orig(resolve(fi, e))
        return v
    seen = set()
    stack = list(starts) if starts is not None else [cfg.entry]
    while stack:
        a = stack.pop()
        if a in seen:
            continue
        seen.add(a)
        n = cfg.nodes[a]
        want = None
        if n.kind == "test":
            want = outcome(n.ast)
        for b, lab in cfg.succ[a]:
            if lab == "X":
                continue
            if want is not None and lab in ("T", "F") and lab != want:
                continue
            stack.append(b)
    return seen


def reached_under(fi, target_node, outcome):
    ids = nodes_for(fi, target_node)
    r = run_abstract(fi, outcome)
    return any(i in r for i in ids)


# ---- copy propagation over single-assignment locals -----------------------------------

def single_defs(fi):
    """local name -> defining expression, for locals assigned exactly once in fi by a plain
    `name = expr` (or element-wise tuple assignment), never augmented, not a parameter and
    not a loop / with / except target."""
    cache = getattr(fi, "_sdefs", None)
    if cache is not None:
        return cache
    counts, defs = {}, {}
    params = set(fi.params)
    for n in walk_local(fi.node):
        if isinstance(n, ast.Assign):
            for t in n.targets:
                if isinstance(t, ast.Name):
                    counts[t.id] = counts.get(t.id, 0) + 1
                    defs[t.id] = n.value
                elif isinstance(t, (ast.Tuple, ast.List)):
                    if isinstance(n.value, (ast.Tuple, ast.List)) and len(n.value.elts) == len(t.elts):
                        for a, b in zip(t.elts, n.value.elts):
                            if isinstance(a, ast.Name):
                                counts[a.id] = counts.get(a.id, 0) + 1
                                defs[a.id] = b
                    else:
                        for a in ast.walk(t):
                            if isinstance(a, ast.Name):
                                counts[a.id] = counts.get(a.id, 0) + 2
        elif isinstance(n, (ast.AugAssign, ast.AnnAssign)):
            if isinstance(n.target, ast.Name):
                counts[n.target.id] = counts.get(n.target.id, 0) + 2
        elif isinstance(n, (ast.For, ast.AsyncFor)):
            for a in ast.walk(n.target):
                if isinstance(a, ast.Name):
                    counts[a.id] = counts.get(a.id, 0) + 2
        elif isinstance(n, (ast.With, ast.AsyncWith)):
            for it in n.items:
                if it.optional_vars is not None:
                    for a in ast.walk(it.optional_vars):
                        if isinstance(a, ast.Name):
                            counts[a.id] = counts.get(a.id, 0) + 2
        elif isinstance(n, ast.ExceptHandler) and n.name:
            counts[n.name] = counts.get(n.name, 0) + 2
        elif isinstance(n, (ast.ListComp, ast.SetComp, ast.DictComp, ast.GeneratorExp)):
            for g in n.generators:
                for a in ast.walk(g.target):
                    if isinstance(a, ast.Name):
                        counts[a.id] = counts.get(a.id, 0) + 2
    out = {k: v for k, v in defs.items() if counts.get(k) == 1 and k not in params}
    try:
        fi._sdefs = out
    except AttributeError:
        pass
    return out


class _Subst(ast.NodeTransformer):
    def __init__(self, defs, depth):
        self.defs, self.depth = defs, depth

    def visit_Name(self, node):
        if isinstance(node.ctx, ast.Load) and node.id in self.defs and self.depth > 0:
            import copy
            v = copy.deepcopy(self.defs[node.id])
            return _Subst({k: x for k, x in self.defs.items() if k != node.id}, self.depth - 1).visit(v)
        return node


def resolve(fi, expr, depth=3):
    """`expr` with single-assignment locals replaced by their definitions (copy propagation)."""
    import copy
    defs = single_defs(fi)
    if not defs or expr is None:
        return expr
    return _Subst(defs, depth).visit(copy.deepcopy(expr))


def origin(fi, expr, depth=4):
    """The node that defines `expr`: a single-assignment local is chased to its defining
    expression (the original node of the function, so identity tests still work)."""
    defs = single_defs(fi)
    while depth and isinstance(expr, ast.Name) and expr.id in defs:
        expr = defs[expr.id]
        depth -= 1
    return expr


def unsnapshot(fi, expr):
    """(inner, True) when `expr` is a snapshot of an iterable - list(x), tuple(x), sorted(x), set(x), [*x],
    (*x,), x.copy() - else (expr, False).  Locals are chased first."""
    e = origin(fi, expr)
    if isinstance(e, ast.Call):
        if isinstance(e.func, ast.Name) and e.func.id in ("list", "tuple", "sorted", "set", "frozenset") \
                and len(e.args) == 1 and not e.keywords:
            return origin(fi, e.args[0]), True
        if isinstance(e.func, ast.Attribute) and e.func.attr == "copy" and not e.args:
            return origin(fi, e.func.value), True
    if isinstance(e, (ast.List, ast.Tuple, ast.Set)) and len(e.elts) == 1 and isinstance(e.elts[0], ast.Starred):
        return origin(fi, e.elts[0].value), True
    return e, False


def arms(fi, expr, depth=3):
    """[(value expr, frozenset of (test text, 'T'|'F'))]: the alternatives of `expr` with conditional
    expressions distributed out (through locals, binary operators and tuples); `() + x` is x."""
    import copy
    e = origin(fi, expr)
    if isinstance(e, ast.IfExp) and depth:
        t = norm(e.test)
        neg = isinstance(e.test, ast.UnaryOp) and isinstance(e.test.op, ast.Not)
        if neg:
            t = norm(e.test.operand)
        out = []
        for v, g in arms(fi, e.body, depth - 1):
            out.append((v, g | {(t, "F" if neg else "T")}))
        for v, g in arms(fi, e.orelse, depth - 1):
            out.append((v, g | {(t, "T" if neg else "F")}))
        return out
    if isinstance(e, ast.BinOp) and depth:
        out = []
        for lv, lg in arms(fi, e.left, depth - 1):
            for rv, rg in arms(fi, e.right, depth - 1):
                if any((t, "T") in lg and (t, "F") in rg or (t, "F") in lg and (t, "T") in rg for t, _ in lg | rg):
                    continue
                if isinstance(e.op, ast.Add) and isinstance(lv, ast.Tuple) and not lv.elts:
                    out.append((rv, lg | rg))
                elif isinstance(e.op, ast.Add) and isinstance(rv, ast.Tuple) and not rv.elts:
                    out.append((lv, lg | rg))
                else:
                    out.append((ast.BinOp(left=lv, op=e.op, right=rv), lg | rg))
        return out
    return [(e, frozenset())]


def _alias_expr(e):
    """Name / attribute chain / subscript by a name or constant / id() of those."""
    if isinstance(e, ast.Name):
        return True
    if isinstance(e, ast.Attribute):
        return _alias_expr(e.value)
    if isinstance(e, ast.Subscript):
        s = e.slice
        ok = isinstance(s, (ast.Name, ast.Constant)) or (isinstance(s, ast.UnaryOp) and isinstance(s.operand, ast.Constant)) \
            or _alias_expr(s)
        return ok and _alias_expr(e.value)
    if isinstance(e, ast.Call):
        return isinstance(e.func, ast.Name) and e.func.id == "id" and len(e.args) == 1 and not e.keywords \
            and _alias_expr(e.args[0])
    return False


def aresolve(fi, expr, depth=4):
    """`expr` with *pure alias* locals (attribute chains, constant subscripts; no calls)
    replaced by their definitions.  Covers aliases that the canonical form leaves in place
    because their source is mutated in the function (pred = self.idxstack[-1])."""
    import copy
    defs = {k: v for k, v in single_defs(fi).items() if _alias_expr(v)}
    if not defs or expr is None:
        return expr
    return _Subst(defs, depth).visit(copy.deepcopy(expr))


def anorm(fi, expr):
    return norm(aresolve(fi, expr))


def rnorm(fi, expr, depth=3):
    """Normalised text of `expr` after copy propagation."""
    return norm(resolve(fi, expr, depth))


def texts(fi, expr):
    """{raw text, resolved text} of an expression: rules accept either spelling."""
    return {norm(expr), rnorm(fi, expr)}
