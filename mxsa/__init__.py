"""mxsa - repository-specific static analysis of fumitoh/modelx.

Pure stdlib (ast).  Nothing here imports or executes modelx.
"""
