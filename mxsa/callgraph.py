"""E2 - call graph with explicit precision levels.

Resolution order for a call `recv.m(...)` inside function F of class C:
  exact  self.m / cls.m / super().m / Class.m(self) through the MRO (+ overrides in
         subclasses of C: CHA), module functions and constructors via the import
         table, receivers typed by the frozen FIELD_TYPES table or by a local
         `x = Class(...)` / `x = <typed field>` assignment, `self._impl.m` inside an
         interface class (through the `interface_cls` attributes of the Impl classes)
  name   otherwise every repo class that defines `m` (name-based CHA), imprecise
  ref    a bound method used as a value (`Instruction(self._update_derived_space,..)`,
         `{"cells": self.on_del_cells}`), counted as a deferred call
Unresolved calls (builtins, networkx, pandas ...) are kept as ('ext', text).
"""
import ast

from .astutil import FUNC_TYPES, dotted, walk_local, call_name
from .index import AnalysisError

# field / property name -> class of the object it holds.  Frozen; confirmed against
# the constructors (file:line of the assignment in the comment).
FIELD_TYPES = {
    "model": "ModelImpl",            # base.py Impl.__init__: self.model = parent.model if parent else self
    "spmgr": "SpaceManager",         # model.py ModelImpl.__init__: spmgr=SpaceManager(self)
    "system": "System",              # system.py: mxsys = System(); Impl.__init__(system=...)
    "_system": "System",             # api.py: _system = mxsys
    "mxsys": "System",
    "executor": "NonThreadedExecutor",   # system.py System.__init__
    "callstack": "CallStack",        # system.py NonThreadedExecutor.__init__
    "tracegraph": "TraceGraph",      # model.py TraceManager.__init__
    "refgraph": "ReferenceGraph",    # model.py TraceManager.__init__
    "refmgr": "ReferenceManager",    # model.py ModelImpl.__init__
    "iomanager": "IOManager",        # system.py System.__init__
    "updater": "SpaceUpdater",       # model.py ModelImpl.updater property
    "_graph": "SpaceGraph",          # model.py SharedSpaceOperations.__init__
    "cells": "CellsDict",            # space.py BaseSpaceImpl.__init__/cells property
    "_cells": "CellsDict",
    "own_refs": "RefDict",           # space.py _init_own_refs
    "_own_refs": "RefDict",
    "global_refs": "RefDict",        # model.py ModelImpl.__init__
    "_global_refs": "RefDict",
    "property_refs": "RefDict",
    "_property_refs": "RefDict",
    "named_spaces": "SpaceDict",     # space.py BaseSpaceImpl.__init__, model.py
    "_named_spaces": "SpaceDict",
    "spaces": "SpaceDict",
    "named_itemspaces": "ImplDict",  # space.py ItemSpaceParent.__init__
    "_named_itemspaces": "ImplDict",
    "_dynbase_refs": "DynBaseRefDict",   # space.py DynamicSpaceImpl._init_refs
    "_sys_refs": "LazyEvalDict",
    "_namespace": "ImplChainMap",
    "namespace": "ImplChainMap",
    "_refs": "ImplChainMap",
    "refs": "ImplChainMap",
    "altfunc": "BoundFunction",      # cells.py / space.py
    "_instructions": "InstructionList",  # model.py SpaceUpdater.__init__
    "errorstack": "ErrorStack",
}
# element type of the member containers (impl level): <space>.cells[name] -> CellsImpl, ...
ELEMENT_TYPES = {
    "cells": "CellsImpl", "_cells": "CellsImpl",
    "own_refs": "ReferenceImpl", "_own_refs": "ReferenceImpl", "global_refs": "ReferenceImpl",
    "_global_refs": "ReferenceImpl", "refs": "ReferenceImpl",
    "named_spaces": "BaseSpaceImpl", "_named_spaces": "BaseSpaceImpl", "spaces": "BaseSpaceImpl",
    "param_spaces": "ItemSpaceImpl",
}
# (class, field) overrides where the same field name means something else
FIELD_TYPES_BY_CLASS = {
    ("SpaceUpdater", "manager"): "SpaceManager",      # model.py SpaceUpdater.__init__
    ("ReferenceManager", "_manager"): "IOManager",    # model.py ReferenceManager.__init__
    ("ReferenceManager", "_model"): "ModelImpl",
    ("BaseSharedIO", "_manager"): "IOManager",
    ("BaseIOSpec", "_manager"): "IOManager",
    ("BaseIOSpec", "_io"): "BaseSharedIO",
    ("BaseIOSpec", "io"): "BaseSharedIO",
    ("IOSpecUnpickler", "manager"): "IOManager",
    ("ModelUnpickler", "manager"): "IOManager",
    ("CallStack", "executor"): "NonThreadedExecutor",
    ("ExecThread", "executor"): "NonThreadedExecutor",
    ("ThreadedExecutor.ExecThread", "executor"): "NonThreadedExecutor",
    ("SharedSpaceOperations", "model"): "ModelImpl",
}
# In these modules `cells`, `spaces`, `refs`, `model`, ... are *interface* level views,
# so the generic field table does not apply to them.
INTERFACE_LEVEL_MODULE_PARTS = (".serialize.", ".export.", ".io.pandas", ".io.excel_legacy")
# Names of builtin container methods: never resolved by name alone (a `list.append`
# is not `CallStack.append`); a typed receiver still resolves them.
GENERIC_NAMES = frozenset("""append pop get update items keys values clear copy remove add
extend insert index sort setdefault popitem discard union intersection difference
join split strip format startswith endswith replace count reverse encode decode
read write close open exists mkdir rename unlink is_dir is_file resolve name
""".split())


class CallSite:
    __slots__ = ("caller", "node", "name", "recv", "targets", "kind")

    def __init__(self, caller, node, name, recv, targets, kind):
        self.caller = caller      # FuncInfo
        self.node = node          # ast.Call (or ast.Attribute for 'ref', ast.Assign for 'setter')
        self.name = name          # method / function name
        self.recv = recv          # dotted receiver text or None
        self.targets = targets    # list of (FuncInfo, precision)
        self.kind = kind          # 'call' | 'ref' | 'setter' | 'deleter' | 'getter'

    @property
    def line(self):
        return self.node.lineno

    def loc(self):
        return "%s:%d" % (self.caller.file, self.node.lineno)

    def __repr__(self):
        return "<Call %s.%s at %s -> %s>" % (
            self.recv, self.name, self.loc(),
            [(t.short, p) for t, p in self.targets][:4])


class CallGraph:
    def __init__(self, repo):
        self.repo = repo
        self.sites = {}        # FuncInfo.qual -> [CallSite]
        self.callers = {}      # FuncInfo.qual -> [(CallSite)]
        self.by_node = {}      # ast.Call -> CallSite
        self.n_calls = 0
        self.n_exact = 0
        self.n_name = 0
        self.n_ext = 0
        self._methods_by_name = {}
        self._impl_of_iface = {}
        self._prepare()
        for f in list(repo.funcs.values()):
            self._scan(f)

    # -- preparation -----------------------------------------------------
    def _prepare(self):
        repo = self.repo
        for ci in repo.all_classes():
            for key, fi in ci.methods.items():
                self._methods_by_name.setdefault(key, []).append(fi)
        # interface class -> impl classes, from `interface_cls = X`
        direct = {}
        for ci in repo.all_classes():
            e = ci.consts.get("interface_cls")
            if isinstance(e, ast.Name):
                target = repo.resolve_class(ci.module, e.id)
                if target is not None:
                    direct.setdefault(target, []).append(ci)
        self._iface_direct = direct
        for ci in repo.all_classes():
            impls = []
            for d in repo.subclasses_incl(ci):
                for impl in direct.get(d, []):
                    if impl not in impls:
                        impls.append(impl)
            if impls:
                self._impl_of_iface[ci] = impls

    def impl_classes_of(self, iface_cls):
        return list(self._impl_of_iface.get(iface_cls, []))

    # -- type inference for receivers ----------------------------------------
    def _field_type(self, fi, attr):
        repo = self.repo
        if fi.cls is not None:
            for c in fi.cls.mro:
                t = FIELD_TYPES_BY_CLASS.get((c.qualname, attr)) or \
                    FIELD_TYPES_BY_CLASS.get((c.name, attr))
                if t:
                    return repo.cls(t) if repo.has_cls(t) else None
        if any(p in "." + fi.module.name + "." for p in INTERFACE_LEVEL_MODULE_PARTS) \
                and attr in ("cells", "spaces", "refs", "model", "named_spaces",
                             "own_refs", "_own_refs", "global_refs", "namespace"):
            return None
        t = FIELD_TYPES.get(attr)
        if t and repo.has_cls(t):
            return repo.cls(t)
        return None

    def _local_types(self, fi):
        """name -> set(ClassInfo) from `x = Class(...)` / `x = a.b.<typed field>`."""
        cache = getattr(fi, "_ltypes", None)
        if cache is not None:
            return cache
        out = {}
        for n in walk_local(fi.node):
            if isinstance(n, ast.Assign) and len(n.targets) == 1:
                tgts = [n.targets[0]]
                vals = [n.value]
                if isinstance(n.targets[0], ast.Tuple) and isinstance(n.value, ast.Tuple) \
                        and len(n.targets[0].elts) == len(n.value.elts):
                    tgts, vals = n.targets[0].elts, n.value.elts
                for t, v in zip(tgts, vals):
                    if isinstance(t, ast.Name):
                        ty = self._expr_type(fi, v, out)
                        if ty:
                            out.setdefault(t.id, set()).update(ty)
        try:
            fi._ltypes = out
        except AttributeError:
            pass
        return out

    def _expr_type(self, fi, e, locals_):
        repo = self.repo
        if isinstance(e, ast.Call):
            nm = dotted(e.func)
            if nm:
                ci = repo.resolve_class(fi.module, nm)
                if ci is not None:
                    return {ci}
            return None
        if isinstance(e, ast.Attribute):
            t = self._field_type(fi, e.attr)
            if t is not None:
                return {t}
            if e.attr == "_impl" and fi.cls is not None and isinstance(e.value, ast.Name) \
                    and e.value.id == "self":
                impls = self.impl_classes_of(fi.cls)
                if impls:
                    return set(impls)
            return None
        if isinstance(e, ast.Subscript) and isinstance(e.value, ast.Attribute):
            # element of a typed member container: <x>.cells[name] is a cells, ...
            et = ELEMENT_TYPES.get(e.value.attr)
            if et and not any(p in "." + fi.module.name + "." for p in INTERFACE_LEVEL_MODULE_PARTS) \
                    and not (fi.cls is not None and fi.cls in self._impl_of_iface):
                return {repo.cls(et)} if repo.has_cls(et) else None
            return None
        if isinstance(e, ast.Name):
            if e.id == "self" and fi.cls is not None and fi.kind not in ("static",):
                return {fi.cls}
            if e.id in locals_:
                return set(locals_[e.id])
            if e.id in FIELD_TYPES and e.id in ("mxsys", "_system"):
                return {repo.cls(FIELD_TYPES[e.id])}
        return None

    # -- resolution --------------------------------------------------------
    def _lookup_cha(self, ci, key):
        """Method `key` on an object statically typed `ci`: MRO of ci and of every
        subclass (the dynamic type may be any subclass)."""
        out = []
        for c in self.repo.subclasses_incl(ci):
            f = c.lookup(key)
            if f is not None and f not in out:
                out.append(f)
        return out

    def resolve(self, fi, call):
        """-> (targets [(FuncInfo, precision)], name, recv_text)"""
        repo = self.repo
        func = call.func
        # f(...) : module function / constructor / local def
        if isinstance(func, ast.Name):
            name = func.id
            # nested function defined in the enclosing function(s)
            o = fi
            while o is not None:
                for q, g in repo.funcs.items():
                    if g.outer is o and g.name == name:
                        return [(g, "exact")], name, None
                o = o.outer
            mi = fi.module
            if name in mi.funcs:
                return [(mi.funcs[name], "exact")], name, None
            ci = repo.resolve_class(mi, name)
            if ci is not None:
                init = ci.lookup("__init__")
                return ([(init, "exact")] if init else []), name, None
            if name in mi.imports:
                mod, attr = mi.imports[name]
                tm = repo.modules.get(mod)
                if tm is not None and attr in tm.funcs:
                    return [(tm.funcs[attr], "exact")], name, None
            return [], name, None
        if not isinstance(func, ast.Attribute):
            return [], None, None
        name = func.attr
        recv = func.value
        rtext = dotted(recv)
        # super().m(...)
        if isinstance(recv, ast.Call) and isinstance(recv.func, ast.Name) and recv.func.id == "super":
            if fi.cls is None:
                return [], name, rtext
            out = []
            for c in repo.subclasses_incl(fi.cls):
                mro = c.mro
                if fi.cls in mro:
                    for nxt in mro[mro.index(fi.cls) + 1:]:
                        if name in nxt.methods:
                            if nxt.methods[name] not in out:
                                out.append(nxt.methods[name])
                            break
            return [(f, "exact") for f in out], name, rtext
        # builtin base class called explicitly: dict.__setitem__(self, ...), deque.pop(self), object.__setattr__(...)
        if rtext in ("dict", "deque", "object", "list", "set", "tuple", "str", "type"):
            return [], name, rtext
        # Class.m(self, ...) / module.func(...)
        if rtext:
            ci = repo.resolve_class(fi.module, rtext)
            if ci is not None:
                f = ci.lookup(name)
                if f is not None:
                    return [(f, "exact")], name, rtext
                return [], name, rtext
            head = rtext.split(".")[0]
            if head in fi.module.imports and rtext.count(".") == 0:
                mod, attr = fi.module.imports[head]
                modname = mod if attr is None else mod + "." + attr
                tm = repo.modules.get(modname)
                if tm is not None:
                    if name in tm.funcs:
                        return [(tm.funcs[name], "exact")], name, rtext
                    ci2 = tm.classes.get(name)
                    if ci2 is not None:
                        init = ci2.lookup("__init__")
                        return ([(init, "exact")] if init else []), name, rtext
                    return [], name, rtext
                elif modname.split(".")[0] != repo.package:
                    return [], name, rtext     # external module (nx., shutil., ...)
        # typed receiver
        types = self._expr_type(fi, recv, self._local_types(fi))
        if types:
            out = []
            for t in sorted(types, key=lambda c: c.key):
                for f in self._lookup_cha(t, name):
                    if f not in out:
                        out.append(f)
            if out:
                return [(f, "exact") for f in out], name, rtext
            # typed but the method is inherited from an external base (deque, nx.DiGraph)
            return [], name, rtext
        # name-based CHA
        if name in GENERIC_NAMES:
            return [], name, rtext
        cands = self._methods_by_name.get(name, [])
        return [(f, "name") for f in cands], name, rtext

    # -- scanning ----------------------------------------------------------
    def _scan(self, fi):
        sites = []
        func_exprs = set()
        for n in walk_local(fi.node):
            if isinstance(n, ast.Call):
                func_exprs.add(n.func)
                targets, name, rtext = self.resolve(fi, n)
                cs = CallSite(fi, n, name, rtext, targets, "call")
                sites.append(cs)
                self.by_node[n] = cs
                self.n_calls += 1
                if not targets:
                    self.n_ext += 1
                elif all(p == "exact" for _, p in targets):
                    self.n_exact += 1
                else:
                    self.n_name += 1
        # bound-method references used as values
        for n in walk_local(fi.node):
            if isinstance(n, ast.Attribute) and isinstance(n.ctx, ast.Load) \
                    and n not in func_exprs:
                if isinstance(n.value, ast.Name) and n.value.id == "self" and fi.cls is not None:
                    fs = [f for f in self._lookup_cha(fi.cls, n.attr)
                          if f.kind in ("method", "static", "class")]
                    if fs:
                        sites.append(CallSite(fi, n, n.attr, "self",
                                              [(f, "ref") for f in fs], "ref"))
        self.sites[fi.qual] = sites
        for cs in sites:
            for t, p in cs.targets:
                self.callers.setdefault(t.qual, []).append(cs)

    # -- queries -----------------------------------------------------------
    def callees(self, fi, precisions=("exact", "ref", "name")):
        out = []
        for cs in self.sites.get(fi.qual, []):
            for t, p in cs.targets:
                if p in precisions and t not in out:
                    out.append(t)
        return out

    def callers_of(self, fi, precisions=("exact", "ref", "name")):
        return [cs for cs in self.callers.get(fi.qual, [])
                if any(t is fi and p in precisions for t, p in cs.targets)]

    def reach(self, starts, precisions=("exact", "ref"), stop=None, max_depth=None):
        """Functions reachable from `starts` (FuncInfo list) -> {qual: (depth, parent qual, CallSite)}"""
        seen = {}
        frontier = []
        for s in starts:
            seen[s.qual] = (0, None, None)
            frontier.append(s)
        depth = 0
        while frontier:
            depth += 1
            if max_depth is not None and depth > max_depth:
                break
            nxt = []
            for f in frontier:
                if stop is not None and stop(f) and seen[f.qual][0] > 0:
                    continue
                for cs in self.sites.get(f.qual, []):
                    for t, p in cs.targets:
                        if p in precisions and t.qual not in seen:
                            seen[t.qual] = (depth, f.qual, cs)
                            nxt.append(t)
            frontier = nxt
        return seen

    def path_to(self, reachmap, qual):
        """Reconstruct entry -> ... -> qual as list of 'short@line' strings."""
        out = []
        q = qual
        while q is not None:
            d, parent, cs = reachmap[q]
            fi = self.repo.funcs[q]
            out.append(fi.short if cs is None else "%s (called at %s)" % (fi.short, cs.loc()))
            q = parent
        return list(reversed(out))

    def site_of(self, call_node):
        return self.by_node.get(call_node)

    def stats(self):
        return {
            "call_sites": self.n_calls,
            "resolved_exact": self.n_exact,
            "resolved_by_name": self.n_name,
            "external_or_unresolved": self.n_ext,
        }
