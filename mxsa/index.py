"""E1 - source index: modules, classes (with resolved bases and C3 MRO), functions."""
import ast
import hashlib
import os
import warnings

warnings.filterwarnings("ignore", category=SyntaxWarning)

from .astutil import FUNC_TYPES, dotted, norm
from .canon import canonicalize, unstable_attrs
from .inline import inline_new_helpers

CANONICAL = os.environ.get("MXSA_RAW") != "1"


class AnalysisError(Exception):
    """Anchor vanished / unrecognised shape.  Exit code 2, never a verdict."""


class FuncInfo:
    __slots__ = ("aliases", "name", "key", "qual", "node", "cls", "module", "kind", "outer",
                 "_pm", "_cfg")

    def __init__(self, name, key, node, cls, module, kind, outer=None):
        self.name = name          # python name of the def
        self.key = key            # name used in the class table ('x', 'x.setter')
        self.node = node
        self.cls = cls            # ClassInfo or None
        self.module = module      # ModuleInfo
        self.kind = kind          # 'func' | 'method' | 'getter' | 'setter' | 'deleter' | 'static' | 'class' | 'nested'
        self.outer = outer        # enclosing FuncInfo for nested defs
        if cls is not None:
            self.qual = "%s:%s.%s" % (module.name, cls.qualname, key)
        elif outer is not None:
            self.qual = "%s.<locals>.%s" % (outer.qual, name)
        else:
            self.qual = "%s:%s" % (module.name, name)
        self._pm = None
        self._cfg = None

    @property
    def short(self):
        if self.cls is not None:
            return "%s.%s" % (self.cls.qualname, self.key)
        if self.outer is not None:
            return "%s.<locals>.%s" % (self.outer.short, self.name)
        return self.name

    @property
    def file(self):
        return self.module.relpath

    @property
    def params(self):
        a = self.node.args
        return [x.arg for x in a.posonlyargs + a.args] + \
               ([a.vararg.arg] if a.vararg else []) + \
               [x.arg for x in a.kwonlyargs] + \
               ([a.kwarg.arg] if a.kwarg else [])

    def loc(self, node=None):
        n = node if node is not None else self.node
        return "%s:%s" % (self.file, getattr(n, "lineno", "?"))

    @property
    def pm(self):
        if self._pm is None:
            from .astutil import parents_map
            self._pm = parents_map(self.node)
        return self._pm

    @property
    def cfg(self):
        if self._cfg is None:
            from .cfg import build_cfg
            self._cfg = build_cfg(self.node)
        return self._cfg

    def __repr__(self):
        return "<Func %s>" % self.qual


class ClassInfo:
    def __init__(self, name, qualname, node, module):
        self.name = name
        self.qualname = qualname
        self.node = node
        self.module = module
        self.base_exprs = []      # list of dotted strings
        self.bases = []           # resolved ClassInfo (repo classes only)
        self.ext_bases = []       # unresolved/external names
        self.methods = {}         # key -> FuncInfo
        self.consts = {}          # class-level simple assignments name -> ast expr
        self.mro = None
        self.subclasses = set()   # transitive, filled by Repo

    @property
    def key(self):
        return "%s:%s" % (self.module.name, self.qualname)

    def lookup(self, key):
        """Resolve a method key through the MRO."""
        for c in self.mro:
            if key in c.methods:
                return c.methods[key]
        return None

    def lookup_const(self, name):
        for c in self.mro:
            if name in c.consts:
                return c.consts[name]
        return None

    def is_sub(self, other):
        return other in self.mro

    def __repr__(self):
        return "<Class %s>" % self.key


class ModuleInfo:
    def __init__(self, name, path, relpath, src, tree):
        self.name = name
        self.path = path
        self.relpath = relpath
        self.src = src
        self.tree = tree
        self.classes = {}     # qualname -> ClassInfo
        self.funcs = {}       # name -> FuncInfo (module level)
        self.imports = {}     # local name -> (module, attr or None)
        self.consts = {}      # module-level name -> ast expr (last assignment)
        self.all_funcs = []   # every FuncInfo of this module incl. methods, nested

    def __repr__(self):
        return "<Module %s>" % self.name


def _decorator_kind(fn):
    for d in fn.decorator_list:
        ds = dotted(d)
        if ds == "property":
            return "getter", fn.name
        if ds == "staticmethod":
            return "static", fn.name
        if ds == "classmethod":
            return "class", fn.name
        if ds and ds.endswith(".setter"):
            return "setter", fn.name + ".setter"
        if ds and ds.endswith(".deleter"):
            return "deleter", fn.name + ".deleter"
        if ds and ds.endswith(".getter"):
            return "getter", fn.name
        if ds == "contextmanager":
            continue
    return None, fn.name


class Repo:
    EXCLUDE_DIRS = ("tests", "testing", "__pycache__")

    def __init__(self, root=None, package="modelx", overlay=None):
        """`overlay` maps a repo-relative path to replacement source text: the
        self-test analyses mutated variants in memory, nothing is written to disk."""
        self.root = os.path.abspath(root or os.environ.get("MXSA_REPO", "/repo"))
        self.package = package
        self.overlay = dict(overlay or {})
        self.modules = {}
        self.classes_by_name = {}   # simple/qual name -> [ClassInfo]
        self.funcs = {}             # qual -> FuncInfo
        self._load()
        self._resolve_bases()
        self._compute_mros()

    # -- loading -----------------------------------------------------------
    def _load(self):
        pkgdir = os.path.join(self.root, self.package)
        if not os.path.isdir(pkgdir):
            raise AnalysisError("package directory not found: %s" % pkgdir)
        h = hashlib.sha256()
        files = []
        for dp, dns, fns in os.walk(pkgdir):
            dns[:] = sorted(d for d in dns if d not in self.EXCLUDE_DIRS)
            for fn in sorted(fns):
                if fn.endswith(".py"):
                    files.append(os.path.join(dp, fn))
        for path in files:
            rel = os.path.relpath(path, self.root)
            if rel in self.overlay:
                raw = self.overlay[rel].encode("utf-8")
            else:
                with open(path, "rb") as f:
                    raw = f.read()
            h.update(rel.encode() + b"\0" + raw)
            src = raw.decode("utf-8")
            try:
                tree = ast.parse(src, filename=path)
            except SyntaxError as e:
                raise AnalysisError("cannot parse %s: %s" % (rel, e))
            modname = rel[:-3].replace(os.sep, ".")
            if modname.endswith(".__init__"):
                modname = modname[: -len(".__init__")]
            mi = ModuleInfo(modname, path, rel, src, tree)
            self.modules[modname] = mi
        self.inlined_helpers = inline_new_helpers({m.name: m.tree for m in self.modules.values()}) if CANONICAL else []
        self.unstable_attrs = unstable_attrs([m.tree for m in self.modules.values()])
        for mi in self.modules.values():
            self._index_module(mi)
        self.digest = h.hexdigest()
        self.n_files = len(files)

    def _index_module(self, mi):
        pkg = mi.name if mi.relpath.endswith("__init__.py") else mi.name.rpartition(".")[0]

        def handle_import(n):
            if isinstance(n, ast.Import):
                for a in n.names:
                    mi.imports[a.asname or a.name.split(".")[0]] = (a.name, None)
            elif isinstance(n, ast.ImportFrom):
                base = n.module or ""
                if n.level:
                    parts = pkg.split(".")
                    up = parts[: len(parts) - (n.level - 1)] if n.level > 1 else parts
                    base = ".".join(up + ([n.module] if n.module else []))
                for a in n.names:
                    mi.imports[a.asname or a.name] = (base, a.name)

        def index_func(fn, cls, outer, container):
            kind, key = _decorator_kind(fn)
            if cls is not None:
                kind = kind or "method"
            elif outer is not None:
                kind = "nested"
            else:
                kind = "func"
            aliases = canonicalize(fn, self.unstable_attrs) if CANONICAL else {}
            fi = FuncInfo(fn.name, key, fn, cls, mi, kind, outer)
            fi.aliases = aliases
            mi.all_funcs.append(fi)
            self.funcs[fi.qual] = fi
            if container is not None:
                container[key] = fi
            # nested defs
            for sub in _nested_defs(fn):
                index_func(sub, None, fi, None)
            return fi

        def index_class(cn, prefix):
            qual = prefix + cn.name
            ci = ClassInfo(cn.name, qual, cn, mi)
            mi.classes[qual] = ci
            self.classes_by_name.setdefault(cn.name, []).append(ci)
            if qual != cn.name:
                self.classes_by_name.setdefault(qual, []).append(ci)
            for b in cn.bases:
                if isinstance(b, ast.Starred):
                    ci.base_exprs.append(("*", b.value, cn.lineno))
                else:
                    ci.base_exprs.append(("", b, cn.lineno))
            for st in cn.body:
                if isinstance(st, FUNC_TYPES):
                    index_func(st, ci, None, ci.methods)
                elif isinstance(st, ast.ClassDef):
                    index_class(st, qual + ".")
                elif isinstance(st, ast.Assign):
                    for t in st.targets:
                        if isinstance(t, ast.Name):
                            ci.consts[t.id] = st.value
                elif isinstance(st, ast.AnnAssign) and isinstance(st.target, ast.Name) and st.value:
                    ci.consts[st.target.id] = st.value
                elif isinstance(st, ast.If):
                    # conditional class-level assignments (CallStack.default_maxdepth)
                    for sub in ast.walk(st):
                        if isinstance(sub, ast.Assign):
                            for t in sub.targets:
                                if isinstance(t, ast.Name):
                                    ci.consts.setdefault(t.id, sub.value)
            return ci

        mi._tuple_hist = []   # (lineno, name, expr) for star-base resolution

        def visit_body(body):
            for st in body:
                if isinstance(st, (ast.Import, ast.ImportFrom)):
                    handle_import(st)
                elif isinstance(st, FUNC_TYPES):
                    index_func(st, None, None, mi.funcs)
                elif isinstance(st, ast.ClassDef):
                    index_class(st, "")
                elif isinstance(st, ast.Assign):
                    for t in st.targets:
                        if isinstance(t, ast.Name):
                            mi.consts[t.id] = st.value
                            mi._tuple_hist.append((st.lineno, t.id, st.value))
                elif isinstance(st, (ast.If, ast.Try)):
                    # version-conditional definitions: index all arms
                    for fld in ("body", "orelse", "finalbody"):
                        visit_body(getattr(st, fld, []) or [])
                    for hnd in getattr(st, "handlers", []) or []:
                        visit_body(hnd.body)

        visit_body(mi.tree.body)

    # -- bases / MRO -------------------------------------------------------
    def _resolve_name(self, mi, name):
        """Resolve a (possibly dotted) name used in module mi to a ClassInfo."""
        head, _, rest = name.partition(".")
        if name in mi.classes:
            return mi.classes[name]
        if head in mi.imports:
            mod, attr = mi.imports[head]
            if attr is None:
                target_mod, cname = mod, rest
            else:
                target_mod, cname = mod, attr + ("." + rest if rest else "")
            tm = self.modules.get(target_mod)
            if tm is not None:
                if cname in tm.classes:
                    return tm.classes[cname]
                # re-export through another module's imports
                if cname in tm.imports and tm is not mi:
                    return self._resolve_name(tm, cname)
            # `from pkg import module` then module.Class
            tm2 = self.modules.get(mod + "." + (attr or ""))
            if tm2 is not None and rest and rest in tm2.classes:
                return tm2.classes[rest]
        return None

    def resolve_class(self, mi, name):
        return self._resolve_name(mi, name)

    def _resolve_bases(self):
        for mi in self.modules.values():
            for ci in mi.classes.values():
                for star, expr, lineno in ci.base_exprs:
                    exprs = [expr]
                    if star:
                        nm = dotted(expr)
                        cand = [h for h in mi._tuple_hist if h[1] == nm and h[0] < lineno]
                        if not cand or not isinstance(cand[-1][2], ast.Tuple):
                            raise AnalysisError(
                                "cannot resolve star bases of %s (%s)" % (ci.key, nm))
                        exprs = list(cand[-1][2].elts)
                    for e in exprs:
                        nm = dotted(e)
                        r = self._resolve_name(mi, nm) if nm else None
                        if r is not None:
                            ci.bases.append(r)
                        else:
                            ci.ext_bases.append(nm or norm(e))

    def _compute_mros(self):
        def mro(ci, stack=()):
            if ci.mro is not None:
                return ci.mro
            if ci in stack:
                raise AnalysisError("cyclic class hierarchy at %s" % ci.key)
            seqs = [list(mro(b, stack + (ci,))) for b in ci.bases] + [list(ci.bases)]
            res = [ci]
            while True:
                seqs = [s for s in seqs if s]
                if not seqs:
                    break
                cand = None
                for s in seqs:
                    c = s[0]
                    if not any(c in t[1:] for t in seqs):
                        cand = c
                        break
                if cand is None:
                    raise AnalysisError("no C3 MRO for %s" % ci.key)
                res.append(cand)
                for s in seqs:
                    if s[0] is cand:
                        del s[0]
            ci.mro = res
            return res

        for mi in self.modules.values():
            for ci in mi.classes.values():
                mro(ci)
        for mi in self.modules.values():
            for ci in mi.classes.values():
                for b in ci.mro[1:]:
                    b.subclasses.add(ci)

    # -- lookup helpers ----------------------------------------------------
    def module(self, suffix):
        if suffix in self.modules:
            return self.modules[suffix]
        cands = [m for n, m in self.modules.items()
                 if n.endswith("." + suffix) or n == suffix]
        if len(cands) != 1:
            raise AnalysisError("module %r: %d candidates" % (suffix, len(cands)))
        return cands[0]

    def cls(self, spec):
        """'CellsImpl' or 'serializer_6:ModelWriter'."""
        mod, _, name = spec.rpartition(":")
        cands = self.classes_by_name.get(name, [])
        if mod:
            cands = [c for c in cands
                     if c.module.name == mod or c.module.name.endswith("." + mod)]
        else:
            # prefer modelx.core / modelx.io over historical serializers
            pri = [c for c in cands if ".serialize.serializer_" not in c.module.name
                   and ".managers." not in c.module.name and ".export." not in c.module.name]
            if len(pri) >= 1:
                cands = pri
            core = [c for c in cands if c.module.name.startswith(self.package + ".core.")]
            if len(cands) > 1 and len(core) == 1:
                cands = core
        if len(cands) != 1:
            raise AnalysisError("class %r: %d candidates (anchor vanished?)" % (spec, len(cands)))
        return cands[0]

    def has_cls(self, spec):
        try:
            self.cls(spec)
            return True
        except AnalysisError:
            return False

    def func(self, spec, inherited=False):
        """'CellsImpl.on_eval_formula', 'serializer_6:ModelWriter.write_model',
        'node:get_node' (module function), 'Cells.value.setter'."""
        mod, _, rest = spec.rpartition(":")
        parts = rest.split(".")
        # module-level function
        if len(parts) == 1:
            mi = self.module(mod)
            if rest not in mi.funcs:
                raise AnalysisError("function %r not found (anchor vanished)" % spec)
            return mi.funcs[rest]
        # class method: try longest class qualname
        for i in range(len(parts) - 1, 0, -1):
            cname = ".".join(parts[:i])
            key = ".".join(parts[i:])
            if cname in self.classes_by_name:
                ci = self.cls((mod + ":" if mod else "") + cname)
                if key in ci.methods:
                    return ci.methods[key]
                if inherited:
                    f = ci.lookup(key)
                    if f is not None:
                        return f
                raise AnalysisError("method %r not found in %s (anchor vanished)" % (key, ci.key))
        raise AnalysisError("cannot resolve %r (anchor vanished)" % spec)

    def has_func(self, spec, inherited=False):
        try:
            self.func(spec, inherited)
            return True
        except AnalysisError:
            return False

    def all_classes(self):
        for mi in self.modules.values():
            yield from mi.classes.values()

    def all_funcs(self, modules=None):
        for mi in self.modules.values():
            if modules is not None and not any(
                    mi.name == m or mi.name.endswith("." + m) or mi.name.startswith(m + ".")
                    for m in modules):
                continue
            yield from mi.all_funcs

    def subclasses_incl(self, ci):
        return [ci] + sorted(ci.subclasses, key=lambda c: c.key)


def _nested_defs(fn):
    """Function defs directly nested in fn (not inside a nested class/def)."""
    out = []
    stack = list(fn.body)
    while stack:
        n = stack.pop()
        if isinstance(n, FUNC_TYPES):
            out.append(n)
            continue
        if isinstance(n, (ast.ClassDef, ast.Lambda)):
            continue
        stack.extend(ast.iter_child_nodes(n))
    out.sort(key=lambda f: f.lineno)
    return out
