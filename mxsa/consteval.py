"""E5 - tiny abstract evaluator: known constant / empty collection / unknown."""
import ast
import operator

from .astutil import dotted


class _Unknown:
    def __repr__(self):
        return "UNKNOWN"


UNKNOWN = _Unknown()


class NonEmpty:
    """A collection known only to be possibly non-empty (content unknown)."""
    def __repr__(self):
        return "NONEMPTY?"


MAYBE = NonEmpty()

_BIN = {ast.BitOr: operator.or_, ast.BitAnd: operator.and_, ast.BitXor: operator.xor,
        ast.LShift: operator.lshift, ast.RShift: operator.rshift, ast.Add: operator.add,
        ast.Sub: operator.sub, ast.Mult: operator.mul}


def ceval(expr, repo, fi=None, env=None):
    """Evaluate `expr` to a python constant, frozenset() for a provably empty collection,
    MAYBE for a collection of unknown content, or UNKNOWN."""
    env = env or {}
    if isinstance(expr, ast.Constant):
        return expr.value
    if isinstance(expr, ast.Name):
        if expr.id in env:
            return env[expr.id]
        if fi is not None and expr.id in fi.module.consts:
            return ceval(fi.module.consts[expr.id], repo, None, env)
        return UNKNOWN
    if isinstance(expr, ast.Attribute):
        d = dotted(expr)
        if d:
            head, _, attr = d.rpartition(".")
            ci = None
            if head == "self" and fi is not None and fi.cls is not None:
                ci = fi.cls
            elif fi is not None:
                ci = repo.resolve_class(fi.module, head)
            if ci is not None:
                c = ci.lookup_const(attr)
                if c is not None:
                    return ceval(c, repo, None, env)
        return UNKNOWN
    if isinstance(expr, ast.UnaryOp):
        v = ceval(expr.operand, repo, fi, env)
        if v is UNKNOWN or v is MAYBE:
            return UNKNOWN
        try:
            if isinstance(expr.op, ast.USub):
                return -v
            if isinstance(expr.op, ast.Invert):
                return ~v
            if isinstance(expr.op, ast.Not):
                return not v
        except Exception:
            return UNKNOWN
        return UNKNOWN
    if isinstance(expr, ast.BinOp) and type(expr.op) in _BIN:
        a = ceval(expr.left, repo, fi, env)
        b = ceval(expr.right, repo, fi, env)
        if a is UNKNOWN or b is UNKNOWN or a is MAYBE or b is MAYBE:
            return UNKNOWN
        try:
            return _BIN[type(expr.op)](a, b)
        except Exception:
            return UNKNOWN
    if isinstance(expr, (ast.Set, ast.List, ast.Tuple, ast.Dict)):
        elts = expr.keys if isinstance(expr, ast.Dict) else expr.elts
        return frozenset() if not elts else MAYBE
    if isinstance(expr, ast.Call):
        fn = dotted(expr.func)
        if fn in ("set", "list", "dict", "tuple", "frozenset") and not expr.args and not expr.keywords:
            return frozenset()
        if isinstance(expr.func, ast.Attribute):
            recv = ceval(expr.func.value, repo, fi, env)
            m = expr.func.attr
            if recv == frozenset() and isinstance(recv, frozenset):
                # methods of an EMPTY set/dict
                if m in ("intersection", "difference", "copy", "keys", "values", "items"):
                    return frozenset()
                if m in ("union", "symmetric_difference"):
                    return MAYBE
            if recv is MAYBE and m in ("intersection", "union", "difference", "copy"):
                return MAYBE
        return UNKNOWN
    return UNKNOWN


def truthiness(value):
    """True / False / None (unknown)"""
    if value is UNKNOWN or value is MAYBE:
        return None
    try:
        return bool(value)
    except Exception:
        return None
