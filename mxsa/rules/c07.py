"""C07 - ItemSpaces are parametrised, isolated, identity-stable instances of their base."""
import ast

from ..framework import rule
from ..astutil import dotted, call_name, call_recv, norm, walk_local, unparse, ancestors
from .. import q
from .common import assigned_value, kw, arg, enclosing_for
from . import c01, c13   # shared rules are listed for C07 as well

META = {
    "explanation": (
        "Decides the structural clauses behind C07: (R1) who writes param_spaces / "
        "named_itemspaces / _dynamic_subs and that registration and removal are paired; (R2) "
        "every operation that edits a member of a static space discards, in the same step and "
        "for every sub space it touches, the instances built from that space "
        "(clear_subs_rootitems on the edited space itself), and a formula / namespace change "
        "deletes the space's own instances; (R3) an instance is created from the normalised "
        "key, with the base selected by the formula's result, every cells and child space of "
        "the base replicated inside the instance, arguments bound as references with highest "
        "precedence; (R4) the handle cache key is the chain of argument tuples and a cached "
        "handle is re-attached to the re-created instance.  C01.R1/R2/R3 (creation only on "
        "the miss branch, stored under the looked-up key, normalised arguments) apply with "
        "ItemSpaceParent as the object."),
    "not_decided": [
        "values inside instances (runtime)",
        "lifetime of entries in the weak handle cache (garbage collection)",
    ],
    "assumptions": [],
}


@rule("C07.R1", "C07", "WMC", "who writes the instance tables; registration paired with removal", min_instances=6)
def r1(ctx, R):
    """param_spaces is written in ItemSpaceParent.on_eval_formula (add) and _del_itemspace
    (remove) only; _dynamic_subs is appended in DynamicSpaceImpl.__init__ and removed in its
    on_delete; named_itemspaces receives the instance through the container argument."""
    n = 0
    for f in ctx.repo.all_funcs(modules=["modelx.core"]):
        for st, t in q.subscript_writes(f, "param_spaces"):
            n += 1
            R.inst("param_spaces write in %s" % f.short)
            if isinstance(st, ast.Delete):
                if f.short != "ItemSpaceParent._del_itemspace":
                    R.bad(f, st, "an instance is dropped from param_spaces outside _del_itemspace (not killed)")
            elif f.short != "ItemSpaceParent.on_eval_formula":
                R.bad(f, st, "an instance is registered outside on_eval_formula (not through the executor)")
        for st, t in q.attr_writes(f, attr="param_spaces"):
            n += 1
            R.inst("param_spaces assigned in %s" % f.short)
            if f.short != "ItemSpaceParent.__init__":
                R.bad(f, st, "param_spaces replaced outside __init__")
        for c in q.calls(f, recv_endswith="_dynamic_subs"):
            if call_name(c) in ("append", "remove", "clear", "pop", "extend", "insert"):
                n += 1
                R.inst("_dynamic_subs.%s in %s" % (call_name(c), f.short))
                ok = (call_name(c) == "append" and f.short == "DynamicSpaceImpl.__init__") or \
                     (call_name(c) == "remove" and f.short == "DynamicSpaceImpl.on_delete")
                if not ok:
                    R.bad(f, c, "_dynamic_subs mutated outside DynamicSpaceImpl.__init__/on_delete")
    R.need(n >= 5, "expected >=5 instance-table writes, found %d" % n)
    di = ctx.func("DynamicSpaceImpl.__init__")
    do = ctx.func("DynamicSpaceImpl.on_delete")
    R.inst("registration in base._dynamic_subs is paired with removal in on_delete")
    ap = q.calls(di, name="append", recv_endswith="_dynamic_subs")
    rm = q.calls(do, name="remove", recv_endswith="_dynamic_subs")
    if not ap or [norm(a) for a in ap[0].args] != ["self"] or norm(ap[0].func.value) != "base._dynamic_subs":
        R.bad(di, di.node, "a dynamic space does not register with its base: it is never discarded when the base changes",
              stmt="base._dynamic_subs.append(self)")
    if not rm or [norm(a) for a in rm[0].args] != ["self"]:
        R.bad(do, do.node, "a deleted dynamic space stays registered with its base", stmt="_dynamic_subs.remove(self)")
    ie = ctx.func("ItemSpaceImpl.__init__")
    R.inst("ItemSpaceImpl registers in parent._named_itemspaces")
    c = [c for c in q.calls(ie, name="__init__") if call_recv(c) == "DynamicSpaceImpl"]
    if not c or len(c[0].args) < 4 or norm(c[0].args[3]) != "parent._named_itemspaces":
        R.bad(ie, ie.node, "instance is not registered among the parent's named ItemSpaces", stmt="container")


def _loop_clears(fi, loop, action_names):
    """In `loop`, is every action call preceded (dominated inside the iteration) by
    `<loop target>.clear_subs_rootitems()`?  -> list of offending action calls"""
    tgt = norm(loop.target)
    bad = []
    acts = [c for c in ast.walk(loop) if isinstance(c, ast.Call) and call_name(c) in action_names]
    clears = [c for c in ast.walk(loop) if isinstance(c, ast.Call) and call_name(c) == "clear_subs_rootitems"
              and call_recv(c) == tgt]
    for a in acts:
        if not clears or not q.dominated(fi, clears, a):
            bad.append(a)
    return acts, bad


@rule("C07.R2", "C07", "DOM", "every member edit of a static space discards the instances built from it", min_instances=9, also=("C02", "C09"))
def r2(ctx, R):
    """new_cells / set_cells_property / rename_cells: `<space>.clear_subs_rootitems()` on the
    edited space and, inside the loop, on every sub whose member is touched; rename_space: the
    parent's; on_del_cells and UserSpaceImpl.on_delete: own; namespace / formula changes delete
    the space's own instances."""
    for spec, actions in (("SpaceManager.new_cells", ("UserCellsImpl", "on_inherit")),
                          ("SpaceManager.set_cells_property", ("on_set_property",)),
                          ("SpaceManager.rename_cells", ("on_rename",))):
        fi = ctx.func(spec)
        loops = [n for n in walk_local(fi.node) if isinstance(n, ast.For) and isinstance(n.target, ast.Name) or
                 isinstance(n, ast.For) and isinstance(n.target, ast.Tuple)]
        found = False
        for lp in loops:
            if isinstance(lp.target, ast.Tuple):
                # `for space, c in renamed:` - the space is the first element
                tgt = norm(lp.target.elts[0])
                acts = [c for c in ast.walk(lp) if isinstance(c, ast.Call) and call_name(c) in actions]
                clears = [c for c in ast.walk(lp) if isinstance(c, ast.Call) and call_name(c) == "clear_subs_rootitems"
                          and call_recv(c) == tgt]
                bad = [a for a in acts if not clears or not q.dominated(fi, clears, a)]
            else:
                acts, bad = _loop_clears(fi, lp, actions)
            if not acts:
                continue
            found = True
            R.inst("%s: each touched sub space discards its instances before `%s`" % (spec, "/".join(actions)))
            for a in bad:
                R.bad(fi, a, "a sub space's member is edited without discarding the ItemSpaces built from that sub space: "
                             "they keep the old copy and its values")
        if not found:
            R.bad(fi, fi.node, "no per-sub-space edit loop found", stmt="loop")
    # every re-derivation of a cells (member-level on_inherit: two arguments) happens after the owning
    # space discarded its instances - also on the base-edit path (UserSpaceImpl.on_inherit)
    n_oi = 0
    for f in ctx.repo.all_funcs(modules=["modelx.core"]):
        for c in q.calls(f, name="on_inherit"):
            if len(c.args) != 2 or c.keywords:
                continue
            n_oi += 1
            R.inst("%s: cells re-derivation `%s` follows clear_subs_rootitems() of the owning space" % (f.short, norm(c)[:40]))
            clears = q.calls(f, name="clear_subs_rootitems")
            cfg = f.cfg
            tests = {n_.id for n_ in cfg.nodes if n_.kind == "test" and norm(n_.ast) in ("attr == 'cells'", "'cells' == attr")}
            r_ = cfg.reach([cfg.entry], avoid=set(q.nodes_for(f, clears)), avoid_edges={(t, "F") for t in tests})
            if any(i in r_ for i in q.nodes_for(f, c)):
                R.bad(f, c, "a derived cells is re-derived (new formula) while the ItemSpaces of its space keep the old copy: "
                            "S[1].foo() keeps the value from the base that was removed")
    R.need(n_oi >= 2, "expected >=2 member-level on_inherit calls, found %d" % n_oi)
    nc = ctx.func("SpaceManager.new_cells")
    R.inst("new_cells: the edited space itself discards its instances")
    if not q.calls(nc, name="clear_subs_rootitems", recv="space"):
        R.bad(nc, nc.node, "instances built from the space do not get the new cells", stmt="space.clear_subs_rootitems()")
    rs = ctx.func("SpaceManager.rename_space")
    R.inst("rename_space: the parent's instances are discarded, the space's own by on_rename")
    c = q.calls(rs, name="clear_subs_rootitems", recv="space.parent")
    orn = q.calls(rs, name="on_rename", recv="space")
    if not c or not orn or q.path_between(rs, orn[0], c[0]):
        R.bad(rs, rs.node, "instances of the parent keep the child under its old name", stmt="space.parent.clear_subs_rootitems()")
    for spec in ("UserSpaceImpl.on_del_cells", "UserSpaceImpl.on_delete"):
        fi = ctx.func(spec)
        R.inst("%s discards instances built from the space" % spec)
        c = q.calls(fi, name="clear_subs_rootitems", recv="self")
        if not c or not fi.cfg.must_pass(q.nodes_for(fi, c), fi.cfg.exit, labels=("N", "T", "F")):
            R.bad(fi, fi.node, "instances built from the space survive", stmt="clear_subs_rootitems")
    rl_ = ctx.func("UserCellsImpl.reload")
    R.inst("UserCellsImpl.reload: a changed source discards the ItemSpaces of the space before the cells is cleared")
    cr_ = [c for c in q.calls(rl_, name="clear_subs_rootitems") if q.anorm(rl_, c.func.value) == "self.parent"]
    co_ = q.calls(rl_, name="clear_obj")
    if not cr_ or not co_ or set(q.guards_of(rl_, cr_[0])) != set(q.guards_of(rl_, co_[0])):
        R.bad(rl_, rl_.node, "after a reload the existing ItemSpaces keep the old compiled function and their values",
              stmt="reload clears ItemSpaces")
    cs = ctx.func("DynamicBase.clear_subs_rootitems")
    R.inst("clear_subs_rootitems clears each root through root.parent.clear_itemspace_at(root.argvalues_if)")
    c = q.calls(cs, name="clear_itemspace_at")
    lpv = [norm(n.target) for n in walk_local(cs.node) if isinstance(n, ast.For)]
    if not c or not lpv or q.anorm(cs, c[0].func.value) != "%s.rootspace.parent" % lpv[0]:
        R.bad(cs, cs.node, "roots are not cleared through their parent", stmt="clear_itemspace_at")
    ci = ctx.func("ItemSpaceParent.clear_itemspace_at")
    R.inst("clear_itemspace_at clears the instance node with its dependents")
    c = q.calls(ci, name="clear_with_descs")
    if not c or norm(c[0].args[0]) != "key_to_node(self, key)":
        R.bad(ci, ci.node, "discarding an instance does not clear what was computed from it", stmt="clear_with_descs")
    da = ctx.func("ItemSpaceParent.del_all_itemspaces")
    R.inst("del_all_itemspaces visits every key of param_spaces")
    lp = [n for n in walk_local(da.node) if isinstance(n, ast.For)]
    if not lp or norm(lp[0].iter) not in ("list(self.param_spaces)", "tuple(self.param_spaces)", "list(self.param_spaces.keys())") \
            or not q.calls(da, name="clear_itemspace_at") or [norm(a) for a in q.calls(da, name="clear_itemspace_at")[0].args] != [norm(lp[0].target)]:
        R.bad(da, da.node, "not every instance is deleted", stmt="for key in param_spaces")
    ocr = ctx.func("UserSpaceImpl.on_change_ref")
    R.inst("on_change_ref pushes the new reference into the dynamic subs")
    if not q.calls(ocr, name="change_dynsub_refs"):
        R.bad(ocr, ocr.node, "instances keep the old reference", stmt="change_dynsub_refs")


@rule("C07.R3", "C07", "FLOW", "an instance replicates its base under the bound arguments", min_instances=10, also=("C05",))
def r3(ctx, R):
    """on_eval_formula: base from the formula's result (None -> own base; {'base': S}; 'bases');
    ItemSpaceImpl(parent=self, base=base, refs=refs, arguments=node_get_args(key_to_node(self,
    key))); DynamicSpaceImpl builds a DynamicCellsImpl for every cells of the base and a child
    DynamicSpaceImpl for every child space, recursively; arguments are bound by the parent's
    signature."""
    oe = ctx.func("ItemSpaceParent.on_eval_formula")
    mk = q.calls(oe, name="ItemSpaceImpl")
    R.inst("on_eval_formula: ItemSpaceImpl(parent=self, base=base, refs=refs, arguments=node_get_args(node))")
    if len(mk) != 1:
        R.bad(oe, oe.node, "instance is not created exactly once", stmt="ItemSpaceImpl(...)")
    else:
        c = mk[0]
        want = {"parent": "self", "base": "base", "refs": "refs", "arguments": "node_get_args(key_to_node(self, key))"}
        for k, v in want.items():
            if norm(kw(c, k) or ast.Constant(0)) != v:
                R.bad(oe, c, "instance created with %s=%s, expected %s" % (k, norm(kw(c, k) or ast.Constant(None)), v),
                      stmt="ItemSpaceImpl %s" % k)
    def _expand(name, seen=()):
        out = []
        for v in assigned_value(oe, name):
            if isinstance(v, ast.Name) and v.id not in seen and assigned_value(oe, v.id):
                out.extend(_expand(v.id, seen + (name,)))       # a local chosen per branch (or an inlined helper's result)
            else:
                out.append(norm(v))
        return out
    bvals = sorted(_expand("base"))
    R.inst("on_eval_formula: base is the own base, or the static base of the space named by the formula")
    own = "self._dynbase if self.is_dynamic() else self"
    if own not in bvals or "bs._impl" not in bvals or "bs._impl._dynbase" not in bvals:
        R.bad(oe, oe.node, "base selection changed: %s" % bvals, stmt="base =")
    else:
        for arm in ("'base' in params", "'bases' in params"):
            for val in ("bs._impl", "bs._impl._dynbase"):
                ok_arm = any(isinstance(n_, ast.Assign) and norm(n_.targets[0]) == "base" and norm(n_.value) == val
                             and (arm, "T") in q.guards_of(oe, n_) for n_ in walk_local(oe.node))
                if not ok_arm:
                    R.bad(oe, oe.node, "formula result key %s: a %s space is not accepted as base" % (
                        arm.split()[0], "static" if val == "bs._impl" else "dynamic"), stmt="base arm %s %s" % (arm, val))
        for n_ in walk_local(oe.node):
            if isinstance(n_, ast.Assign) and norm(n_.targets[0]) == "base" and norm(n_.value) == own:
                g = q.guards_of(oe, n_)
                if not (("params is None", "T") in g or ("'base' in params", "F") in g or any("bases" in t for t, l in g)):
                    R.bad(oe, n_, "own base used although the formula named another one")
    R.inst("on_eval_formula: a result that is neither None nor a mapping is refused")
    rs = q.raises(oe, "ValueError")
    if not any(("isinstance(params, Mapping)", "F") in q.guards_of(oe, r_) for r_ in rs):
        R.bad(oe, oe.node, "invalid formula results are not refused", stmt="raise ValueError")
    R.inst("on_eval_formula: refs returned by the formula are passed to the instance")
    rv = [norm(v) for v in assigned_value(oe, "refs")]
    if "params.get('refs', None)" not in rv:
        R.bad(oe, oe.node, "references returned by the formula are ignored", stmt="refs =")
    di = ctx.func("DynamicSpaceImpl.__init__")
    R.inst("DynamicSpaceImpl.__init__: BaseSpaceImpl.__init__(..., base.formula, refs, arguments, base.doc) then _init_cells()")
    bi = [c for c in q.calls(di, name="__init__") if call_recv(c) == "BaseSpaceImpl"]
    ic = q.calls(di, name="_init_cells", recv="self")
    if not bi or not ic or not q.dominated(di, bi, ic[0]) or "base.formula" not in [norm(a) for a in bi[0].args] + [norm(k.value) for k in bi[0].keywords if k.arg == "formula"]:
        R.bad(di, di.node, "a dynamic space is not built from its base's formula and cells", stmt="DynamicSpaceImpl.__init__")
    icf = ctx.func("DynamicSpaceImpl._init_cells")
    R.inst("_init_cells: one DynamicCellsImpl per cells of the base")
    lp = [n for n in walk_local(icf.node) if isinstance(n, ast.For)]
    if not lp or norm(lp[0].iter) != "self._dynbase.cells.values()" or not any(
            isinstance(c, ast.Call) and call_name(c) == "DynamicCellsImpl" and norm(kw(c, "base")) == norm(lp[0].target)
            for c in ast.walk(lp[0])):
        R.bad(icf, icf.node, "not every cells of the base is replicated", stmt="for base in _dynbase.cells")
    ics = ctx.func("ItemSpaceImpl._init_child_spaces")
    R.inst("_init_child_spaces: every child space of the base, recursively")
    lp = [n for n in walk_local(ics.node) if isinstance(n, ast.For)]
    if not lp or norm(lp[0].iter) != "space._dynbase.named_spaces.items()" or not q.calls(ics, name="DynamicSpaceImpl") \
            or not q.calls(ics, name="_init_child_spaces", recv="self"):
        R.bad(ics, ics.node, "child spaces are not replicated recursively", stmt="_init_child_spaces")
    else:
        c = q.calls(ics, name="DynamicSpaceImpl")[0]
        if [norm(a) for a in c.args[:4]] != ["space", "name", "space._named_spaces", "base"]:
            R.bad(ics, c, "child is not created in the dynamic parent from the corresponding base child")
    ii = ctx.func("ItemSpaceImpl.__init__")
    R.inst("ItemSpaceImpl.__init__: bind args, replicate children, bind base references")
    seq = [q.calls(ii, name=n_, recv="self") for n_ in ("_bind_args", "_init_child_spaces", "_init_dynbaserefs")]
    if not all(seq):
        R.bad(ii, ii.node, "instance initialisation incomplete", stmt="ItemSpaceImpl.__init__ steps")
    ba = ctx.func("ItemSpaceImpl._bind_args")
    R.inst("ItemSpaceImpl._bind_args: parent.formula.signature.bind(**args)")
    c = q.calls(ba, name="bind")
    if not c or norm(c[0].func.value) != "self.parent.formula.signature":
        R.bad(ba, ba.node, "arguments are not bound by the parent's parameter signature", stmt="bind")
    ia = ctx.func("DynamicSpaceImpl._init_allargs")
    R.inst("_init_allargs: an instance's own arguments come before those of the enclosing instances")
    mk_ = q.calls(ia, name="ImplChainMap")
    oka = False
    if mk_ and len(mk_[0].args) >= 4:
        alts = q.arms(ia, mk_[0].args[3])
        oka = bool(alts)
        # the list must be given whole in each alternative (a list grown by append/extend is not decided here)
        if any(isinstance(c_, ast.Call) and call_name(c_) in ("append", "extend", "insert") for c_ in walk_local(ia.node)):
            oka = False
        for v, g in alts:
            if not isinstance(v, ast.List):
                oka = False
                continue
            el = [norm(e.value) if isinstance(e, ast.Starred) else norm(e) for e in v.elts]
            if "self._arguments" in el and "self.parent._allargs.maps" in el and el.index("self._arguments") > el.index("self.parent._allargs.maps"):
                oka = False
            if ("isinstance(self, ItemSpaceImpl)", "T") in g and "self._arguments" not in el:
                oka = False
    if not oka:
        R.bad(ia, ia.node, "the lookup order of the argument maps is not (own arguments, then the enclosing instances'): in a "
                           "parametric space nested in another one with the same parameter name the name binds to the outer argument",
              stmt="_init_allargs order")
    ci_ = ctx.func("CellsImpl.__init__")
    R.inst("a cells built from a base takes its allow_none setting (as it takes is_cached)")
    ws_ = [st for st, t in q.attr_writes(ci_, attr="allow_none", recv="self") if norm(st.value) == "base.allow_none"]
    if not ws_ or ("base", "T") not in q.guards_of(ci_, ws_[0]):
        R.bad(ci_, ci_.node, "allow_none of a base cells is not carried into its instances: S.foo() returns None, S[1].foo() raises",
              stmt="allow_none = base.allow_none")
    di_ = ctx.func("DynamicSpaceImpl.__init__")
    R.inst("a dynamic space takes the allow_none setting of its base")
    ws_ = [st for st, t in q.attr_writes(di_, attr="allow_none", recv="self") if norm(st.value) == "base.allow_none"]
    bi_ = [c for c in q.calls(di_, name="__init__") if call_recv(c) == "BaseSpaceImpl"]
    if not ws_ or q.guards_of(di_, ws_[0]) or (bi_ and q.path_between(di_, ws_[0], bi_[0])):
        R.bad(di_, di_.node, "allow_none of a child space of the base is not seen in the instance", stmt="space allow_none = base.allow_none")
    ir = ctx.func("ItemSpaceImpl._init_refs")
    R.inst("ItemSpaceImpl._init_refs: arguments become references (RefDict('arguments', data=arguments))")
    c = q.calls(ir, name="RefDict")
    if not c or norm(kw(c[0], "data") or ast.Constant(0)) != "arguments":
        R.bad(ir, ir.node, "parameters are not bound as names", stmt="RefDict('arguments')")
    dr = ctx.func("DynamicSpaceImpl._init_dynbaserefs")
    R.inst("_init_dynbaserefs: every own reference of the base is wrapped for this instance, children too")
    lp = [n for n in walk_local(dr.node) if isinstance(n, ast.For)]
    if len(lp) < 2 or norm(lp[0].iter) != "self._dynbase.own_refs.items()":
        R.bad(dr, dr.node, "base references are not bound in the instance and its children", stmt="_init_dynbaserefs")


@rule("C07.R5", "C07", "FLOW", "every name the instance builder reads is bound", min_instances=1)
def r5(ctx, R):
    """symtable over modelx/core/space.py: a name that a function of ItemSpaceParent / DynamicSpaceImpl /
    ItemSpaceImpl reads as a global is a module-level name or a builtin (the `bases` / `bs` slip made
    `{"bases": None}` raise NameError instead of using the default base)."""
    import builtins
    import symtable
    mi = ctx.repo.module("modelx.core.space")
    st = symtable.symtable(mi.src, mi.relpath, "exec")
    modnames = set(st.get_identifiers())
    n = 0

    def visit(t, encl, cls):
        nonlocal n
        for ch in t.get_children():
            if ch.get_type() == "class":
                visit(ch, encl, ch.get_name())
            elif ch.get_type() == "function":
                if cls in ("ItemSpaceParent", "DynamicSpaceImpl", "ItemSpaceImpl", "DynamicBase", "DynBaseRefDict"):
                    n += 1
                    R.inst("%s.%s: global reads are bound" % (cls, ch.get_name()))
                    for s in ch.get_symbols():
                        nm = s.get_name()
                        if s.is_global() and s.is_referenced() and not s.is_assigned() and nm not in modnames \
                                and not hasattr(builtins, nm) and nm not in encl:
                            R.bad("%s.%s" % (cls, ch.get_name()), None, "reads the unbound name `%s`: NameError at run time on the "
                                  "path that uses it" % nm, stmt="unbound %s" % nm)
                visit(ch, encl | set(ch.get_identifiers()), cls)
    visit(st, set(), None)
    R.need(n >= 10, "expected >=10 instance-builder functions, found %d" % n)


@rule("C07.R4", "C07", "FLOW", "handle identity: cache key and re-attachment", min_instances=5)
def r4(ctx, R):
    """dkey = (dynamic_key of the parent if dynamic else ()) + (key,); the instance interface is
    stored in dynamic_cache[dkey] and looked up there on re-creation; a cached handle is
    re-attached (`cache._impl = self; self.interface = cache`) before Impl.__init__; nested
    parents share the root's cache."""
    oe = ctx.func("ItemSpaceParent.on_eval_formula")
    dv = sorted((norm(v), tuple(sorted(g))) for x in assigned_value(oe, "dkey") for v, g in q.arms(oe, x))
    R.inst("on_eval_formula: dkey = parent's dynamic_key + (key,)")
    if dv != [("(key,)", (("self.is_dynamic()", "F"),)), ("self.dynamic_key + (key,)", (("self.is_dynamic()", "T"),))]:
        R.bad(oe, oe.node, "handle cache key is not the chain of argument tuples: %s" % dv, stmt="dkey =")
    R.inst("on_eval_formula: handle cached under dkey and looked up under dkey")
    ws = [st for st, t in q.subscript_writes(oe, "dynamic_cache")]
    mk = q.calls(oe, name="ItemSpaceImpl")
    if not ws or norm(ws[0].targets[0].slice) != "dkey" or norm(ws[0].value) != "space.interface" or \
            not mk or norm(kw(mk[0], "cache") or ast.Constant(0)) != "self.dynamic_cache.get(dkey, None)":
        R.bad(oe, oe.node, "the handle of an instance is not cached/looked up under its own key", stmt="dynamic_cache[dkey]")
    di = ctx.func("DynamicSpaceImpl.__init__")
    R.inst("DynamicSpaceImpl.__init__: a cached handle is re-attached before Impl.__init__")
    a1 = [st for st, t in q.attr_writes(di, attr="_impl", recv="cache")]
    a2 = [st for st, t in q.attr_writes(di, attr="interface", recv="self")]
    bi = [c for c in q.calls(di, name="__init__") if call_recv(c) == "BaseSpaceImpl"]
    if not a1 or not a2 or norm(a1[0].value) != "self" or norm(a2[0].value) != "cache" or \
            ("cache", "T") not in q.guards_of(di, a1[0]) or (bi and q.path_between(di, bi[0], a2[0])):
        R.bad(di, di.node, "an old handle is not re-attached to the re-created instance", stmt="cache._impl = self")
    ip = ctx.func("ItemSpaceParent.__init__")
    R.inst("ItemSpaceParent.__init__: nested parents share the root's handle cache")
    vals = {norm(st.value): q.guards_of(ip, st) for st, t in q.attr_writes(ip, attr="dynamic_cache", recv="self")}
    if ("self.is_dynamic()", "T") not in vals.get("self.parent.dynamic_cache", set()) or \
            not any("WeakValueDictionary" in k for k in vals):
        R.bad(ip, ip.node, "handle cache is not shared down the dynamic tree / not weak", stmt="dynamic_cache =")
    ics = ctx.func("ItemSpaceImpl._init_child_spaces")
    R.inst("_init_child_spaces: each child's handle is cached under its own parent's key + (name,)")
    dv = [n_ for n_ in walk_local(ics.node) if isinstance(n_, ast.Assign) and norm(n_.targets[0]) == "dkey"]
    lp = [n_ for n_ in walk_local(ics.node) if isinstance(n_, ast.For)]
    ws = [st for st, t in q.subscript_writes(ics, "dynamic_cache")]
    if len(dv) != 1 or norm(dv[0].value) != "space.dynamic_key + (name,)" or not lp or \
            not any(x is dv[0] for x in ast.walk(lp[0])):
        R.bad(ics, ics.node, "child spaces with the same name in different branches share one handle-cache slot: "
                             "S[n].A.X and S[n].B.X become the same object", stmt="dkey = space.dynamic_key + (name,)")
    if not ws or norm(ws[0].targets[0].slice) != "dkey" or norm(ws[0].value) != "child.interface":
        R.bad(ics, ics.node, "child handle is not stored under its key", stmt="dynamic_cache[dkey] = child.interface")
    mk = q.calls(ics, name="DynamicSpaceImpl")
    if mk and norm(kw(mk[0], "cache") or ast.Constant(0)) != "cache" or \
            [norm(v) for v in assigned_value(ics, "cache")] != ["self.dynamic_cache.get(dkey, None)"]:
        R.bad(ics, ics.node, "child is not re-attached to the handle cached under its own key", stmt="cache = dynamic_cache.get(dkey)")
    dk = ctx.func("ItemSpaceImpl.dynamic_key")
    R.inst("ItemSpaceImpl.dynamic_key = parent's key + (argvalues_if,)")
    rv = sorted(norm(r_.value) for r_ in q.returns(dk))
    if rv != ["(self.argvalues_if,)", "self.parent.dynamic_key + (self.argvalues_if,)"]:
        R.bad(dk, dk.node, "dynamic key does not identify the instance by its arguments", stmt="dynamic_key")
    ck = ctx.func("DynamicSpaceImpl.dynamic_key")
    rv = [norm(r_.value) for r_ in q.returns(ck)]
    R.inst("DynamicSpaceImpl.dynamic_key = parent's key + (name,)")
    if rv != ["self.parent.dynamic_key + (self.name,)"]:
        R.bad(ck, ck.node, "child key does not extend the parent's key by its name", stmt="dynamic_key child")
