"""C10 - object-valued references rebind relatively or stay absolute as their mode says."""
import ast

from ..framework import rule
from ..astutil import dotted, call_name, call_recv, norm, walk_local, unparse, ancestors
from .. import q
from .common import assigned_value, kw, arg, enclosing_for

META = {
    "explanation": (
        "Decides the structural clauses behind C10: (R1) every dispatch on the reference mode "
        "is decided, by abstract execution of the function for each of the three modes, to do "
        "what that mode requires (absolute: copy the base's object; auto/relative: go through "
        "get_relative_interface; relative out of scope: raise) and every mode literal in the "
        "repository lies in {auto, relative, absolute}; (R2) the mode value flows unmodified from "
        "the interface layer through ReferenceManager / SpaceManager into the reference, into "
        "derived references (first definer's mode), into the written file and back; (R3) the "
        "relative rebinding plumbing: sub references are computed from the defining space's "
        "reference, is_relative is recorded, and tree-membership of dotted ids is decided on "
        "whole path components."),
    "not_decided": ["the path arithmetic of SpaceGraph.get_relative and of the dynamic-tree rebinding"],
    "assumptions": [],
}

DOMAIN = {"auto", "relative", "absolute"}


def _mode_outcome(mode, extra=None):
    extra = extra or {}

    def oc(e):
        t = norm(e)
        if t in extra:
            return extra[t]
        if isinstance(e, ast.Compare) and len(e.ops) == 1 and isinstance(e.ops[0], (ast.Eq, ast.NotEq)) \
                and isinstance(e.comparators[0], ast.Constant) and isinstance(e.comparators[0].value, str) \
                and norm(e.left).split(".")[-1] == "refmode":
            eq = e.comparators[0].value == mode
            if isinstance(e.ops[0], ast.NotEq):
                eq = not eq
            return "T" if eq else "F"
        return None
    return oc


def _reached(fi, nodes, oc):
    r = q.run_abstract(fi, oc)
    return any(i in r for n in nodes for i in q.nodes_for(fi, n))


@rule("C10.R1", "C10", "CASE", "every dispatch on the mode does what each of the three modes requires", min_instances=14)
def r1(ctx, R):
    """Literals compared with / passed as a refmode lie in the domain; ReferenceImpl.__init__,
    ReferenceImpl.on_inherit, SpaceManager.new_ref / change_ref / _check_subs_relrefs and
    DynBaseRefDict.wrap_impl are executed abstractly for mode in {auto, relative, absolute}."""
    n = 0
    for f in ctx.repo.all_funcs(modules=["modelx.core", "modelx.export", "modelx.serialize.serializer_6"]):
        for x in walk_local(f.node):
            if isinstance(x, ast.Compare) and norm(x.left).split(".")[-1] == "refmode" \
                    and isinstance(x.comparators[0], ast.Constant):
                n += 1
                R.inst("%s: `%s`" % (f.short, norm(x)))
                if x.comparators[0].value not in DOMAIN:
                    R.bad(f, x, "mode literal %r is not one of %s" % (x.comparators[0].value, sorted(DOMAIN)))
            if isinstance(x, ast.Call):
                k = kw(x, "refmode")
                if isinstance(k, ast.Constant) and isinstance(k.value, str):
                    n += 1
                    R.inst("%s: passes refmode=%r" % (f.short, k.value))
                    if k.value not in DOMAIN:
                        R.bad(f, x, "mode literal %r is not one of %s" % (k.value, sorted(DOMAIN)))
    R.need(n >= 10, "expected >=10 mode literals, found %d" % n)
    for spec, want in (("UserSpace.absref", "absolute"), ("UserSpace.relref", "relative"),
                       ("EditableParent.__setattr__", "auto")):
        fi = ctx.func(spec)
        cs = [c for c in q.calls(fi) if kw(c, "refmode") is not None]
        R.inst("%s passes %r" % (spec, want))
        if not cs or not all(isinstance(kw(c, "refmode"), ast.Constant) and kw(c, "refmode").value == want for c in cs):
            R.bad(fi, fi.node, "%s does not create references in %s mode" % (spec, want), stmt="refmode=")
    # ReferenceImpl.__init__
    ri = ctx.func("ReferenceImpl.__init__")
    wsl = [st for st, t in q.attr_writes(ri, attr="is_relative", recv="self")]

    def _val(expr, mode):
        """value of an is_relative expression for a given mode: True/False/None(unknown)"""
        if isinstance(expr, ast.Constant) and isinstance(expr.value, bool):
            return expr.value
        if isinstance(expr, ast.Compare) and len(expr.ops) == 1 and norm(expr.left).split(".")[-1] == "refmode" \
                and isinstance(expr.comparators[0], ast.Constant):
            eq = expr.comparators[0].value == mode
            return eq if isinstance(expr.ops[0], ast.Eq) else (not eq if isinstance(expr.ops[0], ast.NotEq) else None)
        if isinstance(expr, ast.UnaryOp) and isinstance(expr.op, ast.Not):
            v = _val(expr.operand, mode)
            return None if v is None else not v
        if isinstance(expr, ast.IfExp):
            t = _val(expr.test, mode)
            return None if t is None else _val(expr.body if t else expr.orelse, mode)
        return None
    for mode in sorted(DOMAIN):
        R.inst("ReferenceImpl.__init__[%s]: is_relative = %s" % (mode, mode != "absolute"))
        reached = q.run_abstract(ri, _mode_outcome(mode))
        vals = {_val(st.value, mode) for st in wsl if any(i in reached for i in q.nodes_for(ri, st))}
        if vals != {mode != "absolute"}:
            R.bad(ri, ri.node, "a reference created in %s mode gets is_relative in %s, required %s" % (
                mode, sorted(map(str, vals)), mode != "absolute"), stmt="is_relative[%s]" % mode)
    # ReferenceImpl.on_inherit
    oi = ctx.func("ReferenceImpl.on_inherit")
    gri = q.calls(oi, name="get_relative_interface")
    copy_abs = [st for st, t in q.attr_writes(oi, attr="interface", recv="self") if norm(st.value) == "bases[0].interface"
                and ("bases[0].has_interface()", "T") in q.guards_of(oi, st)]
    rel_assign = [st for st, t in q.attr_writes(oi, attr="interface", recv="self") if norm(st.value) == "interface"]
    raises = q.raises(oi, "ValueError")
    ext = {"bases[0].has_interface()": "T"}
    for mode in sorted(DOMAIN):
        oc = _mode_outcome(mode, ext)
        R.inst("ReferenceImpl.on_inherit[%s]" % mode)
        if mode == "absolute":
            if _reached(oi, gri, oc) or not _reached(oi, copy_abs, oc):
                R.bad(oi, oi.node, "an absolute reference is re-bound relatively when re-derived", stmt="on_inherit[absolute]")
        else:
            if not gri or not _reached(oi, gri, oc) or _reached(oi, copy_abs, oc):
                R.bad(oi, oi.node, "a %s reference keeps the base's object when re-derived (not re-bound to the sub)" % mode,
                      stmt="on_inherit[%s]" % mode)
            oc_in = _mode_outcome(mode, dict(ext, is_relative="T"))
            if not _reached(oi, rel_assign, oc_in):
                R.bad(oi, oi.node, "%s mode: the relative object is not assigned" % mode, stmt="on_inherit[%s] assign" % mode)
            oc_out = _mode_outcome(mode, dict(ext, is_relative="F"))
            if mode == "relative":
                if not any(_reached(oi, [r_], oc_out) for r_ in raises if "out of scope" in norm(r_)) or _reached(oi, rel_assign, oc_out):
                    R.bad(oi, oi.node, "relative mode out of scope is not refused", stmt="on_inherit[relative] out of scope")
            else:
                if not _reached(oi, rel_assign, oc_out):
                    R.bad(oi, oi.node, "auto mode out of scope does not fall back to the original object",
                          stmt="on_inherit[auto] out of scope")
        for r_ in raises:
            if "must not happen" in norm(r_) and _reached(oi, [r_], oc):
                R.bad(oi, r_, "mode %s falls through to the 'must not happen' arm" % mode)
    if gri and [norm(a) for a in gri[0].args] != ["self.parent", "bases[0]"]:
        R.bad(oi, gri[0], "relative object is not computed for (this reference's space, first base)")
    R.inst("ReferenceImpl.on_inherit: a non-object value is copied from the first base")
    plain = [st for st, t in q.attr_writes(oi, attr="interface", recv="self") if norm(st.value) == "bases[0].interface"
             and ("bases[0].has_interface()", "F") in q.guards_of(oi, st)]
    if not plain:
        R.bad(oi, oi.node, "plain values are not copied from the first base", stmt="on_inherit plain")
    # SpaceManager.new_ref / change_ref
    for spec, sink in (("SpaceManager.new_ref", "on_create_ref"), ("SpaceManager.change_ref", "on_change_ref")):
        fi = ctx.func(spec)
        gr = q.calls(fi, name="get_relative_interface")
        ext = {"isinstance(value, Interface)": "T", "value._is_valid()": "T", "name in subspace.own_refs": "F",
               "subref.is_defined()": "F", "subref.defined_bases[0] is not space.own_refs[name]": "F",
               "other is not None": "F"}
        for mode in sorted(DOMAIN):
            R.inst("%s[%s]: subs are %s" % (spec, mode, "copied" if mode == "absolute" else "re-bound relatively"))
            got = _reached(fi, gr, _mode_outcome(mode, ext)) if gr else False
            if got != (mode != "absolute"):
                R.bad(fi, fi.node, "%s mode: sub spaces are %s" % (mode, "re-bound relatively" if got else "given the base's object"),
                      stmt="%s[%s]" % (spec, mode))
        for c in gr:
            if [norm(a) for a in c.args] != ["subspace", "space.own_refs[name]"]:
                R.bad(fi, c, "relative object is not computed from the defining space's reference for the sub")
    cr = ctx.func("SpaceManager.change_ref")
    R.inst("change_ref: the defining space's is_relative is False exactly for absolute")
    v = [x for x in assigned_value(cr, "is_relative") if isinstance(x, ast.IfExp)]
    if len(v) != 1 or norm(v[0]) != "False if refmode == 'absolute' else True":
        R.bad(cr, cr.node, "is_relative of a re-bound reference does not follow its mode", stmt="is_relative =")
    ck = ctx.func("SpaceManager._check_subs_relrefs")
    rs = q.raises(ck, "ValueError")
    for mode in sorted(DOMAIN):
        R.inst("_check_subs_relrefs[%s]" % mode)
        got = _reached(ck, rs, _mode_outcome(mode, {"isinstance(value, Interface)": "T", "name in subspace.own_refs": "F",
                                                     "subvalue": "F"})) if rs else False
        if got != (mode == "relative"):
            R.bad(ck, ck.node, "%s mode: out-of-scope sub is %s" % (mode, "refused" if got else "accepted"),
                  stmt="_check_subs_relrefs[%s]" % mode)
    wi = ctx.func("DynBaseRefDict.wrap_impl")
    rets = q.returns(wi)
    rs = q.raises(wi, "ValueError")
    for spec, want in (("ItemSpaceImpl._init_root", "self"), ("DynamicSpaceImpl._init_root", "parent.rootspace")):
        ir_ = ctx.func(spec)
        ws_ = [st for st, t in q.attr_writes(ir_, attr="rootspace", recv="self")]
        R.inst("%s: rootspace = %s (every ItemSpace is the root of its own dynamic tree)" % (spec, want))
        if len(ws_) != 1 or q.anorm(ir_, ws_[0].value) != want or q.guards_of(ir_, ws_[0]):
            R.bad(ir_, ir_.node, "an ItemSpace nested in a dynamic space takes the outer instance as the root of its tree: its "
                                 "references are bound to the enclosing instance's objects, shared by all inner instances",
                  stmt="rootspace =")
    R.inst("wrap_impl: absolute (is_relative false) keeps the original reference")
    keep = [r_ for r_ in rets if norm(r_.value) == "value" and ("value.is_relative", "F") in q.guards_of(wi, r_)]
    if not keep:
        R.bad(wi, wi.node, "an absolute reference is re-bound inside a dynamic space", stmt="wrap_impl absolute")
    ext = {"value.is_relative": "T", "root == impl": "F", "value.interface._is_valid()": "T",
           "isinstance(value.interface, Interface)": "T"}
    for t in [norm(n_.ast) for n_ in wi.cfg.nodes if n_.kind == "test" and "impl[:rootlen" in norm(n_.ast)]:
        ext[t] = "F"
    R.inst("wrap_impl[auto] outside the tree: original object kept")
    oc = _mode_outcome("auto", ext)
    outside_ok = [r_ for r_ in rets if norm(r_.value) == "value"]
    for r_ in rets:
        for x in ast.walk(r_.value):
            if isinstance(x, ast.Attribute) and x.attr not in ("rootspace", "owner", "interface", "_impl", "idstr") \
                    and isinstance(x.value, ast.Name) and x.value.id == "value" \
                    and not any(x.attr in c_.consts or c_.lookup(x.attr) is not None for c_ in ctx.cls("ReferenceImpl").mro):
                R.bad(wi, r_, "wrap_impl reads `value.%s`, which a ReferenceImpl does not have: building the ItemSpace "
                              "fails for a derived reference whose target is outside the tree" % x.attr)
    if _reached(wi, rs, oc) or not _reached(wi, outside_ok, oc):
        R.bad(wi, wi.node, "auto mode outside the base's tree does not keep the original object", stmt="wrap_impl[auto]")
    R.inst("wrap_impl[relative] outside the tree: refused")
    if not rs or not _reached(wi, rs, _mode_outcome("relative", ext)):
        R.bad(wi, wi.node, "relative mode outside the base's tree is not refused", stmt="wrap_impl[relative]")
    R.inst("wrap_impl inside the tree: root -> rootspace, descendants -> get_impl_from_name")
    BASE_ROOT, TARGET = "self.owner.rootspace._dynbase.idstr", "value.interface._impl.idstr"

    def _root_is_target(pair):
        t, l = pair
        return l == "T" and t in ("%s == %s" % (BASE_ROOT, TARGET), "%s == %s" % (TARGET, BASE_ROOT))
    if not any(q.anorm(wi, r_.value) == "self.owner.rootspace" and any(_root_is_target(p) for p in q.guards_of(wi, r_)) for r_ in rets) or \
            not any(isinstance(r_.value, ast.Call) and call_name(r_.value) == "get_impl_from_name" for r_ in rets):
        R.bad(wi, wi.node, "objects inside the base's tree are not mapped to the dynamic tree: the tree is that of the base "
                           "the root ItemSpace was built from (`rootspace._dynbase`), compared with the referenced object",
              stmt="wrap_impl inside")
    # the prefix test and the name handed to get_impl_from_name are taken against the same base root
    R.inst("wrap_impl: descendants are recognised by the base root plus the separator, and looked up by the rest")
    pref = [n_ for n_ in wi.cfg.nodes if n_.kind == "test" and isinstance(n_.ast, ast.Compare) and "[:" in norm(n_.ast)]
    okp = False
    for n_ in pref:
        t = q.anorm(wi, n_.ast)
        if t in ("%s + '.' == %s[:len(%s) + 1]" % (BASE_ROOT, TARGET, BASE_ROOT), "%s + '.' == %s[:rootlen + 1]" % (BASE_ROOT, TARGET)):
            okp = True
    rl = [q.rnorm(wi, v) for v in assigned_value(wi, "rootlen")]
    if not okp or (rl and rl != ["len(%s)" % BASE_ROOT]):
        R.bad(wi, wi.node, "descendants of the base root are not recognised by `<base root>.` as a whole path component",
              stmt="wrap_impl prefix")


@rule("C10.R2", "C10", "FLOW", "the mode value flows unmodified end to end", min_instances=12)
def r2(ctx, R):
    """set_ref -> set_attr(refmode=refmode) -> refmgr.new_ref/change_ref(..., refmode) ->
    spmgr.new_ref/change_ref(..., refmode) -> on_create_ref/on_change_ref(refmode=refmode) ->
    ReferenceImpl(refmode=refmode) -> self.refmode; derived: refmode=bs[0].refmode; writer:
    third element = target.refmode; reader: set_ref(refmode=elm(2))."""
    hops = [
        ("UserSpace.set_ref", "set_attr", "refmode", None),
        ("UserSpaceImpl.set_attr", "change_ref", None, 3),
        ("UserSpaceImpl.set_attr", "new_ref", None, 3),
        ("ReferenceManager.new_ref", "new_ref", None, 3),
        ("ReferenceManager.change_ref", "change_ref", None, 3),
        ("SpaceManager.new_ref", "on_create_ref", "refmode", None),
        ("SpaceManager.change_ref", "on_change_ref", "refmode", None),
        ("SpaceManager.new_ref", "_check_subs_relrefs", None, 3),
        ("SpaceManager.change_ref", "_check_subs_relrefs", None, 3),
        ("UserSpaceImpl.on_change_ref", "on_create_ref", None, 3),
        ("UserSpaceImpl.on_create_ref", "ReferenceImpl", "refmode", None),
    ]
    for spec, callee, kwname, pos in hops:
        fi = ctx.func(spec)
        cs = [c for c in q.calls(fi, name=callee) if not (call_recv(c) in ("impl", "impl.model") and callee in ("new_ref", "change_ref"))]
        R.inst("%s -> %s(refmode)" % (spec, callee))
        if not cs:
            R.bad(fi, fi.node, "%s no longer calls %s" % (spec, callee), stmt=callee)
            continue
        for c in cs:
            a = kw(c, kwname) if kwname else None
            if a is None and pos is not None and len(c.args) > pos:
                a = c.args[pos]
            if a is None and kwname is None:
                a = kw(c, "refmode")
            if a is None or norm(a) != "refmode":
                R.bad(fi, c, "the reference mode is not forwarded unchanged to %s" % callee)
        for x in walk_local(fi.node):
            if isinstance(x, ast.Name) and x.id == "refmode" and isinstance(x.ctx, ast.Store):
                R.bad(fi, x, "the reference mode is re-bound on the way")
    ri = ctx.func("ReferenceImpl.__init__")
    R.inst("ReferenceImpl.__init__: self.refmode = refmode")
    ws = [st for st, t in q.attr_writes(ri, attr="refmode", recv="self")]
    if len(ws) != 1 or norm(ws[0].value) != "refmode":
        R.bad(ri, ri.node, "the reference does not record its mode", stmt="self.refmode =")
    for f in ctx.repo.all_funcs(modules=["modelx.core"]):
        for st, t in q.attr_writes(f, attr="refmode"):
            if f.short == "ReferenceImpl.__init__":
                continue
            R.inst("write of refmode in %s" % f.short)
            if not (f.short == "ReferenceImpl.on_inherit" and norm(st.value) == "bases[0].refmode"):
                R.bad(f, st, "reference mode changed after creation by something other than re-derivation from the first definer")
    oi = ctx.func("ReferenceImpl.on_inherit")
    R.inst("ReferenceImpl.on_inherit takes the mode of the first definer before dispatching on it")
    ws = [st for st, t in q.attr_writes(oi, attr="refmode", recv="self") if norm(st.value) == "bases[0].refmode"]
    tests = [n_.ast for n_ in oi.cfg.nodes if n_.kind == "test" and "self.refmode" in norm(n_.ast)]
    if not ws or any(not q.dominated(oi, ws, t_) for t_ in tests):
        R.bad(oi, oi.node, "a re-derived reference keeps the mode of a base it no longer derives from", stmt="self.refmode = bases[0].refmode")
    ui = ctx.func("UserSpaceImpl.on_inherit")
    R.inst("a freshly created derived reference is re-derived at once (mode and value from the first definer)")
    cs = [c for c in q.calls(ui, name="ReferenceImpl")]
    oi_ = [c for c in q.calls(ui, name="on_inherit") if norm(c.func.value) == "selfdict[name]"]
    if not cs or not oi_ or enclosing_for(ui, cs[0]) is not enclosing_for(ui, oi_[0]) or \
            not q.path_between(ui, cs[0], oi_[0]) or \
            q.guards_of(ui, oi_[0]) != {("selfdict[name].is_derived()", "T")}:
        R.bad(ui, ui.node, "a derived reference is created without taking mode and value from its first definer",
              stmt="create then on_inherit")
    enc = ctx.func("serializer_6:InterfaceRefEncoder.encode")
    R.inst("writer: (\"Interface\", idtuple, target.refmode)")
    okw = False
    for r_ in q.returns(enc):
        v = r_.value
        if isinstance(v, ast.BinOp) and isinstance(v.right, ast.Tuple) and len(v.right.elts) == 2 \
                and norm(v.right.elts[1]) == "self.target.refmode" and isinstance(v.left, ast.Constant) \
                and v.left.value.count("%s") == 2 and v.left.value.startswith('("Interface"'):
            okw = True
    if not okw:
        R.bad(enc, enc.node, "the written reference does not carry its mode as third element", stmt="encode")
    rp = ctx.func("serializer_6:RefAssignParser.get_instruction")
    R.inst("reader: set_ref(name, value, refmode=elm(2))")
    rv = assigned_value(rp, "refmode")
    d = [n_ for n_ in walk_local(rp.node) if isinstance(n_, ast.Dict) and any(isinstance(k, ast.Constant) and k.value == "refmode" for k in n_.keys)]
    if not rv or norm(rv[0]) != "decoder.elm(2)" or not d or norm(d[0].values[0]) != "refmode":
        R.bad(rp, rp.node, "the mode read from the file is not the one passed to set_ref", stmt="refmode=elm(2)")
    else:
        m = [k for n_ in walk_local(rp.node) if isinstance(n_, ast.Call) and call_name(n_) == "from_method"
             for k in n_.keywords if k.arg == "method" and isinstance(k.value, ast.Constant) and k.value.value == "set_ref"]
        if not m:
            R.bad(rp, rp.node, "a reference with a mode is not restored through set_ref", stmt="method='set_ref'")
    pr = ctx.func("ReferenceProxy.refmode")
    R.inst("ReferenceProxy.refmode reports _impl.refmode")
    rr = q.returns(pr)
    if len(rr) != 1 or norm(rr[0].value) != "self._impl.refmode":
        R.bad(pr, pr.node, "reported mode is not the stored one", stmt="return")


@rule("C10.R3", "C10", "SIB", "relative rebinding plumbing; ids compared on whole path components", min_instances=6, also=("C04",))
def r3(ctx, R):
    """get_relative_interface maps (sub space, base space, base value) through
    SpaceGraph.get_relative; new_ref/change_ref record is_relative on the sub reference;
    slicing comparisons of dotted ids include the separator (a plain prefix test confuses
    'S' with 'S2')."""
    gi = ctx.func("SharedSpaceOperations.get_relative_interface")
    gr = q.calls(gi, name="get_relative")
    R.inst("get_relative_interface -> _graph.get_relative(parent.idstr, base.parent.idstr, base.interface._impl.idstr)")
    if not gr or [q.anorm(gi, a) for a in gr[0].args] != ["parent.idstr", "base.parent.idstr", "base.interface._impl.idstr"]:
        R.bad(gi, gi.node, "relative lookup is not (sub space, defining space, referenced object)", stmt="get_relative")
    R.inst("get_relative_interface: (True, mapped object) / (False, original object)")
    rv = sorted(norm(r_.value) for r_ in q.returns(gi))
    if "(False, base.interface)" not in rv or "(True, impl.interface)" not in rv:
        R.bad(gi, gi.node, "return convention of get_relative_interface changed: %s" % rv, stmt="return")
    else:
        for r_ in q.returns(gi):
            g = q.guards_of(gi, r_)
            if norm(r_.value) == "(False, base.interface)" and ("subimpl", "F") not in g:
                R.bad(gi, r_, "original object returned although a relative one exists")
    for spec in ("SpaceManager.new_ref", "SpaceManager.change_ref"):
        fi = ctx.func(spec)
        ws = [st for st, t in q.attr_writes(fi, attr="is_relative", recv="ref")]
        R.inst("%s: sub reference records is_relative of its own rebinding" % spec)
        if len(ws) != 1 or norm(ws[0].value) != "is_relative":
            R.bad(fi, fi.node, "is_relative of the sub reference is not recorded", stmt="ref.is_relative =")
        lp = enclosing_for(fi, ws[0]) if ws else None
        resets = [st for st in (lp.body if lp else []) if isinstance(st, ast.Assign) and norm(st) == "is_relative = False"]
        if lp is not None and not resets:
            R.bad(fi, lp, "is_relative leaks from one sub space to the next")
    for spec, act in (("SpaceManager.new_ref", "on_create_ref"), ("SpaceManager.change_ref", "on_change_ref")):
        fi = ctx.func(spec)
        R.inst("%s: what one sub space binds does not leak into the next (the parameter `value` is not re-bound in the loop)" % spec)
        for lp_ in [x for x in walk_local(fi.node) if isinstance(x, ast.For)]:
            for x in ast.walk(lp_):
                if isinstance(x, ast.Name) and x.id == "value" and isinstance(x.ctx, ast.Store):
                    R.bad(fi, x, "the loop over the sub spaces overwrites `value`: after one sub space was given its own "
                                 "(or the null) object every later sub space is bound to that object too")
    ic = ctx.func("ReferenceManager._impl_change_ref")
    R.inst("_impl_change_ref hands the mode on as it got it")
    if ic.node.args.vararg is not None or not any(
            len(c.args) >= 4 and norm(c.args[3]) == "refmode" for c in q.calls(ic, name="change_ref")):
        R.bad(ic, ic.node, "the reference mode reaches SpaceManager.change_ref as a tuple: after update_pandas / update_module "
                           "the reference and its derived copies have refmode ('absolute',)", stmt="refmode passed on")
    oc_ = ctx.func("UserSpaceImpl.on_change_ref")
    R.inst("on_change_ref returns the *new* reference and gives it the is_relative value before the dynamic subs are updated")
    nv = [n_ for n_ in walk_local(oc_.node) if isinstance(n_, ast.Assign) and isinstance(n_.value, ast.Call)
          and call_name(n_.value) == "on_create_ref" and isinstance(n_.targets[0], ast.Name)]
    rr = q.returns(oc_)
    if not nv or len(rr) != 1 or norm(rr[0].value) != nv[0].targets[0].id:
        R.bad(oc_, oc_.node, "the caller records is_relative on the reference that was just replaced, the new one keeps the "
                             "constructor default", stmt="return <new reference>")
    else:
        var = nv[0].targets[0].id
        ws = [st for st, t in q.attr_writes(oc_, attr="is_relative", recv=var)]
        cd = q.calls(oc_, name="change_dynsub_refs")
        if not ws or norm(ws[0].value) != "is_relative" or (cd and not q.dominated(oc_, ws, cd[0])):
            R.bad(oc_, oc_.node, "dynamic subs are re-bound before the new reference knows whether it is relative",
                  stmt="newref.is_relative = is_relative")
    cr_ = ctx.func("UserSpaceImpl.on_create_ref")
    R.inst("on_create_ref returns the reference it created")
    rr = q.returns(cr_)
    mk = [n_ for n_ in walk_local(cr_.node) if isinstance(n_, ast.Assign) and isinstance(n_.value, ast.Call) and call_name(n_.value) == "ReferenceImpl"]
    if not mk or len(rr) != 1 or norm(rr[0].value) != norm(mk[0].targets[0]):
        R.bad(cr_, cr_.node, "on_create_ref does not return the created reference", stmt="return ref")
    n = 0
    for f in ctx.repo.all_funcs(modules=["modelx.core.space", "modelx.core.model"]):
        for x in walk_local(f.node):
            if isinstance(x, ast.Compare) and len(x.ops) == 1 and isinstance(x.ops[0], (ast.Eq, ast.NotEq)):
                sides = [x.left, x.comparators[0]]
                sl = [s for s in sides if isinstance(s, ast.Subscript) and isinstance(s.slice, ast.Slice)
                      and s.slice.lower is None and s.slice.upper is not None and not isinstance(s.slice.upper, ast.Constant)]
                if not sl:
                    continue
                other = [s for s in sides if s is not sl[0]][0]
                if isinstance(other, (ast.List, ast.Tuple)) or "split" in norm(sl[0]) or "split" in norm(other) \
                        or isinstance(sl[0].value, ast.Name) and sl[0].value.id in ("a_node", "b_node", "old_child", "tg", "ns"):
                    continue   # list-of-components comparison
                n += 1
                R.inst("%s: prefix comparison `%s`" % (f.short, norm(x)))
                if '"."' not in ast.unparse(x).replace("'", '"'):
                    R.bad(f, x, "dotted ids are compared by plain string prefix: 'S' matches 'S2.x' - an object of a "
                                "sibling space with a common name prefix is taken to be inside the tree")
    for f in ctx.repo.all_funcs(modules=["modelx.core.space", "modelx.core.model", "modelx.core.util"]):
        for c in q.calls(f, name=("startswith", "endswith")):
            r_ = call_recv(c) or ""
            if r_ in ("impl", "node", "idstr", "basevalue", "subspace", "basespace", "target", "namespace") or r_.endswith("idstr"):
                n += 1
                R.inst("%s: prefix test `%s`" % (f.short, norm(c)))
                a0 = c.args[0] if c.args else None
                if a0 is None or '"."' not in ast.unparse(a0).replace("'", '"'):
                    R.bad(f, c, "dotted ids are compared by plain string prefix: 'S' matches 'S2.x' - an object of a sibling "
                                "space with a common name prefix is taken to be inside the tree")
    R.need(n >= 2, "expected >=2 id-prefix comparisons, found %d" % n)
    # ancestry of dotted ids, used by get_relative to decide whether the referenced object lies in the base's tree
    hp = ctx.repo.module("modelx.core.model").funcs.get("has_parent")
    R.inst("has_parent(node, parent): parent is an ancestor at any depth (node cut to parent's length equals parent)")
    if hp is None:
        R.bad("modelx.core.model", None, "has_parent is gone", stmt="has_parent")
    else:
        ok = False
        for x in walk_local(hp.node):
            if isinstance(x, ast.Compare) and len(x.ops) == 1 and isinstance(x.ops[0], ast.Eq):
                sides = {q.rnorm(hp, x.left, depth=4), q.rnorm(hp, x.comparators[0], depth=4)}
                if "parent" in sides and sides & {"trim_right(node, len_node(node) - len_node(parent))"}:
                    ok = True
            if isinstance(x, ast.Call) and call_name(x) == "startswith" and norm(x.func.value) == "node" and x.args \
                    and ast.unparse(x.args[0]).replace("'", '"') in ('parent + "."', ):
                ok = True
        if not ok or any(isinstance(c, ast.Call) and call_name(c) == "split_node" for c in walk_local(hp.node)):
            R.bad(hp, hp.node, "has_parent does not test ancestry at every depth (a direct-parent test makes references to "
                               "objects two or more levels below the derived pair stay absolute)", stmt="has_parent body")
    gr_ = ctx.func("SpaceGraph.get_relative")
    R.inst("get_relative: the referenced object is inside the base root (equal or has_parent) before it is mapped")
    hpc = q.calls(gr_, name="has_parent")
    if not hpc or [norm(a) for a in hpc[0].args] != ["shared_parent", "basroot"]:
        R.bad(gr_, gr_.node, "containment in the base root is not tested with has_parent(shared_parent, basroot)", stmt="has_parent(")
