"""C13 - deletion is complete: old handles raise, no value computed from it survives."""
import ast

from ..framework import rule
from ..astutil import dotted, call_name, call_recv, norm, walk_local, unparse, ancestors
from .. import q
from .common import assigned_value, kw, arg, enclosing_for
from .c09 import _clears_obj, _space_clears_cells

META = {
    "explanation": (
        "Decides the structural clauses behind C13: (R1) wherever an object is removed from a "
        "live member container (cells, child spaces, ItemSpaces, param_spaces, references) its "
        "on_delete() is called in the same function; (R2) every on_delete override of an object "
        "that owns its interface reaches set_null_impl(self) on all normal paths; (R3) deleting "
        "a user space reaches deletion of its cells, of its own ItemSpaces, of the ItemSpaces "
        "other spaces built from it, object-level invalidation of every cells, and - through "
        "del_defined_space - on_del_space for every node of its subtree plus re-derivation of "
        "every sub space; deleting a dynamic space reaches its child spaces, ItemSpaces and "
        "deregistration from the base; (R4) derived members that lost their base are deleted "
        "through the same deleters; NullImpl raises DeletedObjectError for every attribute."),
    "not_decided": ["handles 'taken at any earlier point' over arbitrary histories (runtime)"],
    "assumptions": [],
}

CONTAINERS = ("cells", "_cells", "named_spaces", "_named_spaces", "named_itemspaces",
              "_named_itemspaces", "own_refs", "_own_refs", "global_refs", "_global_refs", "spaces")


@rule("C13.R1", "C13", "PAIR", "removal from a member container is paired with on_delete of the removed object",
      min_instances=6)
def r1(ctx, R):
    """Every `<container>.del_item(k)` on a member container and every `del param_spaces[k]`
    has, in the same function, `<obj>.on_delete()` on the object looked up under k (the undo
    of SpaceUpdater.new_space is the one listed exception: the half-built space never escaped)."""
    n = 0
    for f in ctx.repo.all_funcs(modules=["modelx.core"]):
        rem = []
        for c in q.calls(f, name="del_item"):
            r = call_recv(c) or ""
            if r.split(".")[-1] in CONTAINERS:
                rem.append(c)
            elif r == "container" and f.short == "SpaceUpdater.new_space":
                n += 1
                R.inst("%s: undo of a half-built space (listed exception)" % f.short)
                tr = [t for t in q.tries(f) if any(c in list(ast.walk(h)) for h in t.handlers)]
                if not tr:
                    R.bad(f, c, "container.del_item outside the failure handler of new_space")
        for st, t in q.subscript_writes(f, "param_spaces"):
            if isinstance(st, ast.Delete):
                rem.append(st)
        for x in rem:
            n += 1
            R.inst("%s: `%s` paired with on_delete" % (f.short, norm(x)[:60]))
            ods = q.calls(f, name="on_delete")
            ods = [o for o in ods if not (isinstance(o.func.value, ast.Call) and norm(o.func.value) == "super()")]
            if f.short == "RefDict.del_item":
                continue
            if not ods:
                R.bad(f, x, "an object is removed from its container but keeps a live interface: old handles "
                            "act on orphaned state")
                continue
            # the on_delete must run whenever the removal runs
            ok = False
            for o in ods:
                if q.guards_of(f, o) <= q.guards_of(f, x):
                    ok = True
            if not ok:
                R.bad(f, x, "on_delete of the removed object is conditional on more than the removal itself")
    R.need(n >= 6, "expected >=6 removal sites, found %d" % n)
    ds = ctx.func("ItemSpaceParent._del_itemspace")
    R.inst("_del_itemspace: on_delete, named entry and param_spaces entry of the same instance")
    okd = q.calls(ds, name="on_delete", recv="space") and q.calls(ds, name="del_item") and \
        [st for st, t in q.subscript_writes(ds, "param_spaces") if isinstance(st, ast.Delete)]
    sv = assigned_value(ds, "space")
    if not okd or not sv or norm(sv[0]) != "self.param_spaces[key]":
        R.bad(ds, ds.node, "an ItemSpace is not removed from both tables and killed", stmt="_del_itemspace")
    oc = ctx.func("ItemSpaceParent.on_clear_trace")
    R.inst("ItemSpaceParent.on_clear_trace -> _del_itemspace(key)")
    c = q.calls(oc, name="_del_itemspace")
    if not c or [norm(a) for a in c[0].args] != ["key"]:
        R.bad(oc, oc.node, "clearing an ItemSpace node does not delete the instance", stmt="_del_itemspace")


@rule("C13.R2", "C13", "REACH", "every on_delete reaches set_null_impl(self)", min_instances=4)
def r2(ctx, R):
    """Impl.on_delete calls set_null_impl(self); every override (except ReferenceImpl, whose
    interface is the referenced value) calls super().on_delete() on all normal paths;
    set_null_impl replaces the interface's _impl by the NullImpl singleton, whose __getattr__
    raises DeletedObjectError."""
    n = 0
    for ci in ctx.repo.all_classes():
        if not ci.module.name.startswith("modelx.core"):
            continue
        f = ci.methods.get("on_delete")
        if f is None:
            continue
        n += 1
        R.inst("%s.on_delete" % ci.name)
        if ci.name == "ReferenceImpl":
            continue
        if ci.name == "Impl":
            cs = q.calls(f, name="set_null_impl")
            if not cs or [norm(a) for a in cs[0].args] != ["self"] or \
                    not f.cfg.must_pass(q.nodes_for(f, cs), f.cfg.exit):
                R.bad(f, f.node, "Impl.on_delete does not null the interface", stmt="set_null_impl(self)")
            continue
        sup = [c for c in q.calls(f, name="on_delete") if norm(c.func.value) == "super()"]
        if not sup or not f.cfg.must_pass(q.nodes_for(f, sup), f.cfg.exit, labels=("N", "T", "F")):
            R.bad(f, f.node, "on_delete override does not reach Impl.on_delete on every path: the handle stays alive",
                  stmt="super().on_delete()")
    R.need(n >= 4, "expected >=4 on_delete definitions, found %d" % n)
    sn = ctx.repo.module("modelx.core.base").funcs["set_null_impl"]
    R.inst("set_null_impl: object.__setattr__(impl.interface, '_impl', null_impl)")
    cs = q.calls(sn, name="__setattr__")
    if not cs or [norm(a) for a in cs[0].args] != ["impl.interface", "'_impl'", "null_impl"]:
        R.bad(sn, sn.node, "set_null_impl does not replace the interface's _impl with null_impl", stmt="__setattr__")
    ng = ctx.func("NullImpl.__getattr__")
    R.inst("NullImpl.__getattr__ raises DeletedObjectError unconditionally")
    rs = q.raises(ng, "DeletedObjectError")
    if not rs or ng.cfg.reachable(ng.cfg.exit):
        R.bad(ng, ng.node, "a deleted object's attributes do not raise DeletedObjectError", stmt="raise")


@rule("C13.R3", "C13", "REACH", "deleting a space reaches everything that lives in or was built from it",
      min_instances=10, also=("C07", "C08"))
def r3(ctx, R):
    """UserSpaceImpl.on_delete: clear_subs_rootitems(), del_all_itemspaces(), then
    BaseSpaceImpl.on_delete (cells: object-level invalidation + on_delete).
    DynamicSpaceImpl.on_delete: child spaces, del_all_itemspaces, _dynamic_subs.remove(self).
    del_defined_space: on_del_space for every node of visit_tree, re-derivation of every sub,
    nodes removed from the working graph, commit last."""
    U = ctx.cls("UserSpaceImpl")
    uo = U.lookup("on_delete")
    R.inst("a user space is deleted through an on_delete that removes its own ItemSpaces")
    own = [f for f in (c.methods.get("on_delete") for c in U.mro) if f is not None]
    chain = []
    for f in own:
        chain.append(f)
        if not [c for c in q.calls(f, name="on_delete") if norm(c.func.value) == "super()"]:
            break

    def chain_calls(name):
        return [(f, c) for f in chain for c in q.calls(f, name=name, recv="self")]
    if not chain_calls("del_all_itemspaces"):
        R.bad(uo, uo.node, "deleting a user space leaves its ItemSpaces alive: a handle S[1] taken earlier keeps working",
              stmt="del_all_itemspaces")
    R.inst("a user space is deleted through an on_delete that removes instances built from it elsewhere")
    if not chain_calls("clear_subs_rootitems"):
        R.bad(uo, uo.node, "ItemSpaces that other spaces built with this space as base survive its deletion",
              stmt="clear_subs_rootitems")
    bo = ctx.func("BaseSpaceImpl.on_delete")
    R.inst("BaseSpaceImpl.on_delete: every cells is invalidated at object level and killed")
    lp = [n for n in walk_local(bo.node) if isinstance(n, ast.For) and norm(n.iter) == "self.cells.values()"]
    if not lp or not any(isinstance(c, ast.Call) and call_name(c) == "on_delete" and call_recv(c) == norm(lp[0].target)
                         for c in ast.walk(lp[0])):
        R.bad(bo, bo.node, "cells of a deleted space keep live handles", stmt="cells.on_delete()")
    if not _space_clears_cells(ctx, bo):
        R.bad(bo, bo.node, "values computed from the deleted space's cells survive", stmt="object-level invalidation of cells")
    R.inst("BaseSpaceImpl.on_delete: held values are discarded *including inputs*, with their dependents")
    full = False
    for c in q.calls(bo, name="clear_all_values"):
        a = kw(c, "clear_input") or (c.args[0] if c.args else None)
        if isinstance(a, ast.Constant) and a.value is True and lp and any(c is x for x in ast.walk(lp[0])):
            full = True
    for c in q.calls(bo, name="clear_obj"):
        if lp and c.args and norm(c.args[0]) == norm(lp[0].target) and any(c is x for x in ast.walk(lp[0])):
            full = True
    for c in q.calls(bo, name="clear_all_cells", recv="self"):
        a = kw(c, "clear_input")
        if isinstance(a, ast.Constant) and a.value is True:
            full = True
    if not full:
        R.bad(bo, bo.node, "deleting a space keeps the values other spaces computed from its *input* values "
                           "(inputs are not cleared through the trace graph)", stmt="clear inputs on delete")
    cs = ctx.func("DynamicBase.clear_subs_rootitems")
    R.inst("clear_subs_rootitems: the root ItemSpace of *every* dynamic sub is discarded")
    lps = [n for n in walk_local(cs.node) if isinstance(n, ast.For) and "_dynamic_subs" in norm(n.iter)]
    clr = q.calls(cs, name="clear_itemspace_at")
    v = norm(lps[0].target) if lps else "?"
    if not lps or not clr or q.anorm(cs, clr[0].func.value) != "%s.rootspace.parent" % v or \
            [q.anorm(cs, a) for a in clr[0].args] != ["%s.rootspace.argvalues_if" % v]:
        R.bad(cs, cs.node, "instances built from this space are not discarded through their own parent and arguments",
              stmt="root.parent.clear_itemspace_at(root.argvalues_if)")
    else:
        for t, l in q.guards_of(cs, clr[0]):
            # the only admissible skip is one keyed on the identity of the root space itself
            rt = "%s.rootspace" % v
            if not (t.startswith(("root in ", "root not in ", "id(root)", rt + " in ", rt + " not in ", "id(%s)" % rt))):
                R.bad(cs, clr[0], "some instance roots are skipped (guard `%s`): an ItemSpace built from the deleted/edited "
                                  "base survives" % t)
    do = ctx.func("DynamicSpaceImpl.on_delete")
    R.inst("DynamicSpaceImpl.on_delete: child spaces deleted and removed")
    lp = [n for n in walk_local(do.node) if isinstance(n, ast.For) and "named_spaces.values()" in norm(n.iter)]
    if not lp or not any(isinstance(c, ast.Call) and call_name(c) == "on_delete" for c in ast.walk(lp[0])):
        R.bad(do, do.node, "child spaces of a discarded ItemSpace stay alive", stmt="for space in named_spaces")
    R.inst("DynamicSpaceImpl.on_delete: nested ItemSpaces deleted")
    if not q.calls(do, name="del_all_itemspaces", recv="self"):
        R.bad(do, do.node, "nested ItemSpaces of a discarded ItemSpace stay alive", stmt="del_all_itemspaces")
    R.inst("DynamicSpaceImpl.on_delete: deregisters from its base's _dynamic_subs")
    rm = q.calls(do, name="remove", recv_endswith="_dynamic_subs")
    if not rm or [norm(a) for a in rm[0].args] != ["self"] or norm(rm[0].func.value) != "self._dynbase._dynamic_subs":
        R.bad(do, do.node, "a deleted dynamic space stays registered with its base (later edits act on a dead object)",
              stmt="_dynamic_subs.remove(self)")
    di = ctx.func("DynamicSpaceImpl.__init__")
    R.inst("DynamicSpaceImpl.__init__ registers with base._dynamic_subs (pair of the removal)")
    ap = q.calls(di, name="append", recv_endswith="_dynamic_subs")
    if not ap or [norm(a) for a in ap[0].args] != ["self"]:
        R.bad(di, di.node, "dynamic space is not registered with its base", stmt="_dynamic_subs.append(self)")
    # del_defined_space
    dd = ctx.func("SpaceUpdater.del_defined_space")
    R.inst("del_defined_space: _remove_hook for every node of visit_tree(node)")
    lp = [n for n in walk_local(dd.node) if isinstance(n, ast.For) and call_name(n.iter) == "visit_tree"]
    if not lp or not any(isinstance(c, ast.Call) and call_name(c) == "_remove_hook" for c in ast.walk(lp[0])) \
            or any(isinstance(x, (ast.Break, ast.If)) for b in lp[0].body for x in ast.walk(b)):
        R.bad(dd, dd.node, "not every space of the deleted subtree gets its on_del_space", stmt="for child in visit_tree")
    rh = ctx.func("SpaceUpdater._remove_hook")
    R.inst("_remove_hook schedules parent.on_del_space(name)")
    if "parent.on_del_space" not in " ".join(norm(v) for v in assigned_value(rh, "method")) and \
            not any(isinstance(n, ast.Attribute) and n.attr == "on_del_space" for n in walk_local(rh.node)):
        R.bad(rh, rh.node, "removal hook does not call on_del_space", stmt="on_del_space")
    ods = ctx.func("EditableParentImpl.on_del_space")
    R.inst("on_del_space: del_item and on_delete of the same space")
    if not q.calls(ods, name="del_item") or not q.calls(ods, name="on_delete", recv="space"):
        R.bad(ods, ods.node, "on_del_space does not remove and kill the space", stmt="on_del_space")
    R.inst("del_defined_space: every sub space is re-derived")
    lp2 = [n for n in walk_local(dd.node) if isinstance(n, ast.For) and call_name(n.iter) in ("edge_bfs", "edge_dfs", "descendants")]
    if not lp2 or not any(isinstance(a, ast.Attribute) and a.attr == "_update_derived_space" for a in ast.walk(lp2[0])):
        R.bad(dd, dd.node, "sub spaces keep members derived from the deleted space", stmt="_update_derived_space")
    R.inst("del_defined_space: nodes removed from the working graph, executed, committed")
    rmn = q.calls(dd, name="remove_nodes_from", recv="self._graph")
    ex = q.calls(dd, name="execute", recv_endswith="_instructions")
    um = q.calls(dd, name="_update_manager")
    if not rmn or not ex or not um or not q.dominated(dd, rmn, ex[0]) or not q.dominated(dd, ex, um[0]):
        R.bad(dd, dd.node, "deleted nodes stay in the inheritance graph or the graph is committed before the deletion ran",
              stmt="remove_nodes_from/execute/_update_manager")


@rule("C13.R4", "C13", "PAIR", "derived members without a base are deleted through the deleters", min_instances=3)
def r4(ctx, R):
    """UserSpaceImpl.on_inherit: every key left in selfkeys that is derived is passed to
    on_del_cells / on_del_ref (per attr); on_del_cells invalidates, removes and kills;
    on_del_ref kills and removes (RefDict.del_item clears attribute referrers)."""
    oi = ctx.func("UserSpaceImpl.on_inherit")
    R.inst("on_inherit: deleter table {'cells': on_del_cells, 'own_refs': on_del_ref}")
    tbl = [n for n in walk_local(oi.node) if isinstance(n, ast.Dict)]
    ok = False
    for d in tbl:
        m = {k.value: norm(v) for k, v in zip(d.keys, d.values) if isinstance(k, ast.Constant)}
        if m == {"cells": "self.on_del_cells", "own_refs": "self.on_del_ref"}:
            ok = True
    if not ok:
        R.bad(oi, oi.node, "deleter table of on_inherit changed", stmt="attrs = {...}")
    R.inst("on_inherit: tail loop deletes every remaining derived key")
    tails = [n for n in walk_local(oi.node) if isinstance(n, ast.For) and norm(n.iter) == "selfkeys"]
    okt = False
    for lp in tails:
        for c in ast.walk(lp):
            if isinstance(c, ast.Call) and norm(c.func) == "attrs[attr]" and [norm(a) for a in c.args] == [norm(lp.target)]:
                if ("selfdict[name].is_derived()", "T") in q.guards_of(oi, c):
                    okt = True
    if not okt:
        R.bad(oi, oi.node, "derived members whose base disappeared are not deleted", stmt="for name in selfkeys")
    R.inst("on_inherit: keys still provided by a base are taken out of selfkeys")
    if not q.calls(oi, name="remove", recv="selfkeys"):
        R.bad(oi, oi.node, "members still derived from a base would be deleted", stmt="selfkeys.remove(name)")
    oc = ctx.func("UserSpaceImpl.on_del_cells")
    R.inst("on_del_cells: clear_obj(cells), del_item(name), cells.on_delete()")
    if not (_clears_obj(ctx, oc, "cells") and q.calls(oc, name="del_item") and q.calls(oc, name="on_delete", recv="cells")):
        R.bad(oc, oc.node, "a deleted cells is not invalidated, removed and killed", stmt="on_del_cells")
    orf = ctx.func("UserSpaceImpl.on_del_ref")
    R.inst("on_del_ref: del_item through RefDict (clears attribute referrers)")
    if not q.calls(orf, name="del_item", recv_endswith="own_refs"):
        R.bad(orf, orf.node, "a deleted reference stays in own_refs", stmt="del_item")
    rd = ctx.func("RefDict.del_item")
    R.inst("RefDict.del_item: clear_attr_referrers(self.fresh[name]) before removal")
    ca = q.calls(rd, name="clear_attr_referrers")
    di = [c for c in q.calls(rd, name="del_item") if call_recv(c) == "ImplDict"]
    if not ca or not di or not q.dominated(rd, ca, di[0]):
        R.bad(rd, rd.node, "values that read the deleted reference by attribute path survive", stmt="clear_attr_referrers")
    R.inst("on_del_cells: instances built from this space are discarded (they hold a copy of the cells)")
    cr = q.calls(oc, name="clear_subs_rootitems", recv="self")
    if not cr or not oc.cfg.must_pass(q.nodes_for(oc, cr), oc.cfg.exit, labels=("N", "T", "F")):
        R.bad(oc, oc.node, "an ItemSpace built with this space as base keeps the deleted cells alive", stmt="clear_subs_rootitems")
    sd = ctx.func("SpaceManager.del_cells")
    R.inst("del_cells: refuses derived, deletes, re-derives subs")
    if not q.raises(sd) or not q.calls(sd, name="on_del_cells") or not q.calls(sd, name="update_subs"):
        R.bad(sd, sd.node, "del_cells does not propagate the deletion to sub spaces", stmt="del_cells")


LIVE_CONTAINERS = {
    # attribute -> why it matters
    "_dynamic_subs": "ItemSpaces built from a space; deleting one removes it from its base's list",
    "param_spaces": "ItemSpaces of a parent keyed by arguments",
    "data": "held values of a cells",
    "input_keys": "keys of assigned values",
}
LIVE_EXEMPT = {
    # function -> reason (read and confirmed; frozen)
    "DynamicBase.change_dynsub_refs":
        "the body can delete an ItemSpace only by clearing a node that was computed from the element being processed; "
        "such a node was evaluated after that element existed, so the removed ItemSpace was appended later and sits "
        "behind the loop position: nothing is skipped (a list does not raise on size change)",
}
_SNAPSHOTS = ("list", "tuple", "sorted", "set", "frozenset", "dict")
_MUT_METHODS = {"remove", "append", "pop", "clear", "add", "discard", "update", "insert", "extend", "popitem",
                "setdefault", "del_item", "set_item"}


def _live_iter_attr(fi, it):
    """attribute name when `it` iterates a live container field (no snapshot), else None"""
    e = q.origin(fi, it)
    if isinstance(e, ast.Call):
        if isinstance(e.func, ast.Name) and e.func.id in _SNAPSHOTS:
            return None
        if isinstance(e.func, ast.Attribute) and e.func.attr == "copy":
            return None
        if isinstance(e.func, ast.Attribute) and e.func.attr in ("keys", "values", "items") and not e.args:
            e = e.func.value
        elif isinstance(e.func, ast.Name) and e.func.id in ("iter", "reversed", "enumerate") and e.args:
            e = q.origin(fi, e.args[0])
        else:
            return None
    if isinstance(e, ast.Attribute) and e.attr in LIVE_CONTAINERS:
        return e.attr
    return None


def _mutators(ctx):
    memo = ctx.memo.get("live_mutators")
    if memo is not None:
        return memo
    out = {a: {} for a in LIVE_CONTAINERS}
    for f in ctx.repo.all_funcs(modules=["modelx.core"]):
        for n in walk_local(f.node):
            tgt = None
            if isinstance(n, ast.Call) and isinstance(n.func, ast.Attribute) and n.func.attr in _MUT_METHODS:
                tgt = q.origin(f, n.func.value)
            elif isinstance(n, ast.Subscript) and isinstance(n.ctx, (ast.Store, ast.Del)):
                tgt = q.origin(f, n.value)
            if isinstance(tgt, ast.Attribute) and tgt.attr in out:
                out[tgt.attr].setdefault(f.qual, n)
    ctx.memo["live_mutators"] = out
    return out


@rule("C13.R5", "C13", "REACH", "no container is iterated live while the loop body can change it", min_instances=3,
      also=("C02", "C07"))
def r5(ctx, R):
    """For every loop or comprehension in modelx.core that iterates one of the member
    containers (_dynamic_subs, param_spaces, data, input_keys) without taking a snapshot
    (list()/tuple()/sorted()/.copy()): no function reachable from a call in the loop body
    adds to or removes from a container of that name.  Deleting an ItemSpace removes it from
    its base's _dynamic_subs (ItemSpaceImpl.on_delete), clearing a value deletes from data:
    a live iteration skips every second element, and the skipped ItemSpaces / values survive
    the edit."""
    muts = _mutators(ctx)
    R.slot("mutators", {a: sorted(ctx.repo.funcs[k].short for k in v) for a, v in muts.items()})
    R.need(muts["_dynamic_subs"] and muts["data"], "mutators of _dynamic_subs / data not found")
    n_snap = 0
    for f in ctx.repo.all_funcs(modules=["modelx.core"]):
        loops = []
        for n in walk_local(f.node):
            if isinstance(n, (ast.For, ast.AsyncFor)):
                loops.append((n.iter, n.body, n))
        for it, body, loop in loops:
            e = q.origin(f, it)
            # count snapshots of the tracked containers (the rule's positive instances)
            if isinstance(e, ast.Call) and (isinstance(e.func, ast.Name) and e.func.id in _SNAPSHOTS and e.args
                                            or isinstance(e.func, ast.Attribute) and e.func.attr == "copy"):
                inner = e.args[0] if isinstance(e.func, ast.Name) else e.func.value
                inner = q.origin(f, inner)
                if isinstance(inner, ast.Attribute) and inner.attr in LIVE_CONTAINERS:
                    n_snap += 1
                    R.inst("%s iterates a snapshot of %s" % (f.short, inner.attr))
                continue
            attr = _live_iter_attr(f, it)
            if attr is None:
                continue
            R.inst("%s iterates %s live: body must not reach a mutator" % (f.short, attr))
            starts = []
            for b in body:
                for c in ast.walk(b):
                    if isinstance(c, ast.Call):
                        cs = ctx.cg.site_of(c)
                        if cs is not None:
                            starts.extend(t for t, p in cs.targets)
                        # direct mutation in the body itself
                        if isinstance(c.func, ast.Attribute) and c.func.attr in _MUT_METHODS:
                            tg = q.origin(f, c.func.value)
                            if isinstance(tg, ast.Attribute) and tg.attr == attr:
                                R.bad(f, loop, "%s is changed inside a loop that iterates it live" % attr)
            # dynamic dispatch on untyped receivers (node[OBJ].on_clear_trace) is followed by method name
            reach = ctx.cg.reach(starts, precisions=("exact", "ref", "name"))
            hit = sorted(k for k in reach if k in muts[attr])
            if hit and f.short in LIVE_EXEMPT:
                R.note("%s: live iteration accepted - %s" % (f.short, LIVE_EXEMPT[f.short]))
            elif hit:
                R.bad(f, loop, "%s is iterated live, but the loop body reaches %s, which changes a container of that name: "
                               "elements are skipped (%s)" % (attr, ctx.repo.funcs[hit[0]].short, LIVE_CONTAINERS[attr]),
                      path=" -> ".join(ctx.cg.path_to(reach, hit[0])))
    R.need(n_snap >= 2, "expected >=2 snapshot iterations of tracked containers, found %d" % n_snap)
