"""C05 - a failed evaluation leaves a consistent, retryable state."""
import ast

from ..framework import rule
from ..astutil import dotted, call_name, call_recv, norm, walk_local
from .. import q
from .common import enclosing_for

META = {
    "explanation": (
        "Static decision of the structural clauses behind C05: (R1) in the executor's "
        "_eval_formula every path after the call-stack push reaches exactly one pop on "
        "normal exit and exactly one rollback on every exceptional exit, with a catch-all "
        "re-raising handler; the push itself raises before mutating; (R2) is_executing is "
        "reset on every exit of both _start_exec implementations and the per-run error "
        "fields are cleared before the run; (R3) pop and rollback undo the same stack "
        "components and rollback only removes from the graphs; (R4) _store_value cannot "
        "write data on a path that raises, and the store consumes the formula's return "
        "value; (R5) a stored exception is always re-raised (FormulaError or original) "
        "unless the user opted into handled mode.  'For every failure point' is decided "
        "as 'on every path to the RAISE exit of the CFG', which no finite set of injected "
        "faults can cover."),
    "not_decided": [
        "values returned by later evaluations (runtime values)",
        "that chains shorter than the limit do not overflow the interpreter stack",
    ],
    "assumptions": [
        "CPython ast; CFG treats every call/subscript/operator as a possible raise point",
        "modelx is not monkey-patched at run time",
    ],
}


def _formula_call(fi):
    """`<x>.altfunc.fresh.altfunc(*key)` calls in fi."""
    out = []
    for c in q.calls(fi, name="altfunc"):
        r = call_recv(c)
        if r and r.endswith("altfunc.fresh"):
            out.append(c)
    return out


@rule("C05.R1", "C05", "PAIR", "push/pop/rollback pairing in _eval_formula; push raises before mutating",
      min_instances=6)
def r1(ctx, R):
    """After callstack.append(node): every path to NORMAL passes exactly one pop() and no
    rollback(); every path from the formula call to RAISE passes exactly one rollback();
    the handler is catch-all and re-raises; no call sits between push and the try."""
    for spec in ("NonThreadedExecutor._eval_formula",):
        fi = ctx.func(spec)
        cfg = fi.cfg
        app = q.calls(fi, name="append", recv_endswith="callstack")
        pops = q.calls(fi, name="pop", recv_endswith="callstack")
        rbs = q.calls(fi, name="rollback", recv_endswith="callstack")
        evs = q.calls(fi, name="on_eval_formula")
        R.must(len(app) == 1, "expected one callstack.append in %s, found %d" % (spec, len(app)))
        R.must(len(evs) == 1, "expected one on_eval_formula call in %s" % spec)
        R.slot(spec, {"push": norm(app[0]), "pop": [norm(p) for p in pops],
                      "rollback": [norm(r) for r in rbs], "formula_call": norm(evs[0])})
        A, E = app[0], evs[0]
        a_ids = q.nodes_for(fi, A)
        e_ids = q.nodes_for(fi, E)
        p_ids = q.nodes_for(fi, pops) if pops else []
        rb_ids = q.nodes_for(fi, rbs) if rbs else []

        R.inst("%s: push dominates formula call" % spec)
        if not q.dominated(fi, [A], E):
            R.bad(fi, E, "formula is invoked on a path that did not push the node on the call stack")

        R.inst("%s: push is outside any try (its own raise leaves no frame behind)" % spec)
        for a in a_ids:
            xs = [b for b, l in cfg.succ[a] if l == "X"]
            if xs != [cfg.raise_]:
                R.bad(fi, A, "callstack.append is inside a try: a DeepReferenceError raised "
                             "before the push would be rolled back as if the push had happened")

        R.inst("%s: no raising statement between push and the guarded formula call" % spec)
        for n in cfg.nodes:
            if n.id in a_ids or n.id in e_ids or n.ast is None:
                continue
            if n.may_raise and cfg.raise_ in [b for b, l in cfg.succ[n.id] if l == "X"]:
                # an unguarded raise point that lies after the push and before pop/rollback
                if any(cfg.path_exists(a, n.id, avoid=set(p_ids) | set(rb_ids)) for a in a_ids) \
                        and not n.id in p_ids and not n.id in rb_ids:
                    R.bad(fi, n.ast, "statement may raise after the push without rollback")

        R.inst("%s: normal exit passes exactly one pop and no rollback" % spec)
        for a in a_ids:
            if not cfg.always_followed(a, p_ids, exits=[cfg.exit]):
                R.bad(fi, A, "a path from the push to normal return does not pop the call stack",
                      path=q.explain_path(fi, [a], [cfg.exit], avoid=set(p_ids)))
        for rb in rb_ids:
            if cfg.path_exists(rb, cfg.exit):
                R.bad(fi, cfg.nodes[rb].ast, "a path through rollback() returns normally "
                                             "(error swallowed or node rolled back on success)")
        for p in p_ids:
            for p2 in p_ids:
                if cfg.path_exists(p, p2):
                    R.bad(fi, cfg.nodes[p].ast, "two pops on one path")
            for rb in rb_ids:
                if cfg.path_exists(p, rb) or cfg.path_exists(rb, p):
                    R.bad(fi, cfg.nodes[p].ast, "pop and rollback on the same path")

        R.inst("%s: every exceptional exit of the formula call passes exactly one rollback" % spec)
        for e in e_ids:
            xs = [b for b, l in cfg.succ[e] if l == "X"]
            for x in xs:
                r = cfg.reach([x], avoid=set(rb_ids))
                if cfg.raise_ in r or cfg.exit in r:
                    R.bad(fi, E, "an exception from the formula can leave _eval_formula without rollback()",
                          path=q.explain_path(fi, [e], [cfg.raise_, cfg.exit], avoid=set(rb_ids)))
        for rb in rb_ids:
            for rb2 in rb_ids:
                if cfg.path_exists(rb, rb2):
                    R.bad(fi, cfg.nodes[rb].ast, "two rollbacks on one path")

        R.inst("%s: handler is catch-all and re-raises" % spec)
        tr = [t for t in q.tries(fi) if any(s is E or E in list(ast.walk(s)) for s in t.body)]
        R.must(len(tr) == 1, "formula call is not inside exactly one try in %s" % spec)
        hs = tr[0].handlers
        if not any(q.is_catch_all(h) for h in hs):
            R.bad(fi, tr[0], "no catch-all handler around the formula call: exceptions outside "
                             "%s (e.g. KeyboardInterrupt) skip rollback" %
                  [q.handler_names(h) for h in hs], stmt="try: " + norm(E))
        for h in hs:
            if q.is_catch_all(h):
                hid = q.nodes_for(fi, h)
                if any(cfg.path_exists(i, cfg.exit) for i in hid):
                    R.bad(fi, h, "catch-all handler can complete normally: the original exception is lost")

    # CallStack.append: raise before any mutation
    for spec in ("CallStack.append",):
        fi = ctx.func(spec)
        cfg = fi.cfg
        rs = q.raises(fi, "DeepReferenceError")
        R.must(rs, "no raise DeepReferenceError in %s" % spec)
        muts = []
        for c in q.calls(fi, name=("append", "appendleft", "extend")):
            muts.append(c)
        for st, t in q.attr_writes(fi, attr=("counter",)):
            muts.append(st)
        R.need(len(muts) >= 3, "expected >=3 stack mutations in %s, found %d" % (spec, len(muts)))
        R.slot(spec, {"raise": [norm(r) for r in rs], "mutations": [norm(m) for m in muts]})
        R.inst("%s: depth check raises before any mutation" % spec)
        for r_ in rs:
            for m in muts:
                if q.path_between(fi, m, r_):
                    R.bad(fi, m, "stack component mutated before the depth limit check can raise")
        R.inst("%s: depth check compares the stack length with maxdepth" % spec)
        for r_ in rs:
            if not q.depends(fi, r_, lambda e: q.mentions_attr(e, "maxdepth"), "T"):
                R.bad(fi, r_, "raise DeepReferenceError is not guarded by a test on maxdepth")
        # the guard must be evaluated on every call: it dominates the push
        pushes = [c for c in q.calls(fi, name="append") if call_recv(c) == "deque"]
        R.must(pushes, "deque.append(self, item) not found in %s" % spec)
        tests = q.test_nodes(fi, lambda e: q.mentions_attr(e, "maxdepth"))
        for pnode in q.nodes_for(fi, pushes):
            if not cfg.must_pass(tests, pnode):
                R.bad(fi, pushes[0], "the push is reachable without evaluating the depth limit")


@rule("C05.R6", "C05", "FLOW", "the configured recursion limit survives every replacement of the call stack", min_instances=2)
def r6(ctx, R):
    """Every construction of a CallStack / TraceableCallStack outside the executor's __init__ (tracing
    switched on or off) passes `maxdepth=<the current stack>.maxdepth`; the constructors store it."""
    n = 0
    for f in ctx.repo.all_funcs(modules=["modelx.core.system"]):
        for c in q.calls(f, name=("CallStack", "TraceableCallStack")):
            if f.name == "__init__":
                continue
            n += 1
            R.inst("%s: `%s` keeps the limit" % (f.short, norm(c)[:50]))
            md = None
            for k in c.keywords:
                if k.arg == "maxdepth":
                    md = k.value
            if md is None and len(c.args) > 1:
                md = c.args[1]
            if md is None or not q.anorm(f, md).endswith("callstack.maxdepth"):
                R.bad(f, c, "the call stack is replaced by one with the default depth limit: after tracing was switched "
                            "on or off a chain longer than the limit set by set_recursion no longer raises "
                            "DeepReferenceError (and acquires values)")
    R.need(n >= 2, "expected >=2 call stack replacements, found %d" % n)
    for spec in ("CallStack.__init__", "TraceableCallStack.__init__"):
        fi = ctx.func(spec)
        R.inst("%s stores / forwards maxdepth" % spec)
        ok = any(norm(st.value) == "maxdepth" for st, t in q.attr_writes(fi, attr="maxdepth", recv="self")) or \
            any(any(norm(a) == "maxdepth" for a in c.args) or any(norm(k.value) == "maxdepth" for k in c.keywords)
                for c in q.calls(fi, name="__init__"))
        if not ok:
            R.bad(fi, fi.node, "the depth limit given to the constructor is dropped", stmt="maxdepth")


@rule("C05.R2", "C05", "PAIR", "is_executing reset on every exit; error fields cleared before the run",
      min_instances=6)
def r2(ctx, R):
    """Every `is_executing = True` is followed on all paths (incl. RAISE) by `= False`
    (the worker's unconditional tail for ThreadedExecutor); excinfo/errorstack := None
    dominate the evaluation."""
    def flag_writes(fi, value):
        return [st for st, t in q.attr_writes(fi, attr="is_executing")
                if isinstance(st, ast.Assign) and isinstance(st.value, ast.Constant)
                and st.value.value is value]

    fi = ctx.func("NonThreadedExecutor._start_exec")
    sets, resets = flag_writes(fi, True), flag_writes(fi, False)
    R.must(sets, "no is_executing = True in %s" % fi.short)
    R.slot(fi.short, {"set": [norm(s) for s in sets], "reset": [norm(s) for s in resets]})
    for s in sets:
        R.inst("%s: `%s` followed by reset on all exits" % (fi.short, norm(s)))
        if not resets or not q.followed(fi, s, resets):
            R.bad(fi, s, "is_executing can stay True on an exit path (not reset in finally)",
                  path=q.explain_path(fi, q.nodes_for(fi, s), [fi.cfg.exit, fi.cfg.raise_],
                                      avoid=set(q.nodes_for(fi, resets)) if resets else ()))
    ev = q.calls(fi, name="_eval_formula")
    R.must(len(ev) == 1, "expected one _eval_formula call in %s" % fi.short)
    for fld in ("excinfo", "errorstack"):
        ws = [st for st, t in q.attr_writes(fi, attr=fld)
              if isinstance(st, ast.Assign) and isinstance(st.value, ast.Constant) and st.value.value is None]
        R.inst("%s: %s := None dominates the evaluation" % (fi.short, fld))
        if not ws or not q.dominated(fi, ws, ev[0]):
            R.bad(fi, ev[0], "%s is not cleared before the evaluation starts: a stale error "
                             "from an earlier run can be reported" % fld, stmt=fld)

    ft = ctx.func("ThreadedExecutor._start_exec")
    sets_t = flag_writes(ft, True)
    R.must(sets_t, "no is_executing = True in %s" % ft.short)
    run = ctx.func("ThreadedExecutor.ExecThread.run")
    ev_t = q.calls(run, name="_eval_formula")
    R.must(len(ev_t) == 1, "expected one _eval_formula call in %s" % run.short)
    resets_t = flag_writes(run, False)
    R.inst("%s: worker resets is_executing after the evaluation on every path" % run.short)
    cfg = run.cfg
    e_ids = q.nodes_for(run, ev_t[0])
    loopheads = [n.id for n in cfg.nodes if n.kind == "loophead"]
    if not resets_t:
        R.bad(run, ev_t[0], "worker never resets is_executing")
    else:
        rs = set(q.nodes_for(run, resets_t))
        for e in e_ids:
            r = cfg.reach([e], avoid=rs, include_starts=False)
            if cfg.exit in r or cfg.raise_ in r or any(h in r for h in loopheads):
                R.bad(run, ev_t[0], "worker can finish an evaluation without resetting is_executing",
                      path=q.explain_path(run, [e], [cfg.raise_, cfg.exit] + loopheads, avoid=rs))
    for fld in ("excinfo", "errorstack"):
        ws = [st for st, t in q.attr_writes(ft, attr=fld)
              if isinstance(st, ast.Assign) and isinstance(st.value, ast.Constant) and st.value.value is None]
        starts = q.calls(ft, name="set", recv_endswith="signal_start")
        R.must(starts, "signal_start.set() not found in %s" % ft.short)
        R.inst("%s: %s := None dominates the hand-off to the worker" % (ft.short, fld))
        if not ws or not q.dominated(ft, ws, starts[0]):
            R.bad(ft, starts[0], "%s is not cleared before the evaluation starts" % fld, stmt=fld)


def _stack_ops(fi):
    """Abstract summary of what a CallStack method does to the executor's stacks."""
    ops = {}
    ops["deque.pop"] = [c for c in q.calls(fi, name="pop") if call_recv(c) == "deque"]
    ops["idxstack.pop"] = q.calls(fi, name="pop", recv_endswith="idxstack")
    ops["counter-=1"] = [st for st, t in q.attr_writes(fi, attr="counter")
                         if isinstance(st, ast.AugAssign) and isinstance(st.op, ast.Sub)
                         and isinstance(st.value, ast.Constant) and st.value.value == 1]
    ops["refstack.pop"] = q.calls(fi, name="pop", recv_endswith="refstack")
    cmp_ = []
    for n in walk_local(fi.node):
        if isinstance(n, ast.Compare) and q.mentions_attr(n, "refstack") and q.mentions_attr(n, "counter"):
            cmp_.append(n)
    ops["drain-compare"] = cmp_
    return ops


@rule("C05.R3", "C05", "SIB", "pop and rollback undo the same stack components; rollback only removes",
      min_instances=8, also=("C02", "C06", "C08", "C09"))
def r3(ctx, R):
    """CallStack.pop and .rollback both: deque.pop(self), idxstack.pop(), counter -= 1,
    drain refstack under `refstack[-1][0] == self.counter` evaluated after the decrement;
    rollback removes the node from the trace graph and adds nothing to either graph."""
    pop = ctx.func("CallStack.pop")
    rb = ctx.func("CallStack.rollback")
    o_pop, o_rb = _stack_ops(pop), _stack_ops(rb)
    R.slot("pop", {k: [norm(x) for x in v] for k, v in o_pop.items()})
    R.slot("rollback", {k: [norm(x) for x in v] for k, v in o_rb.items()})
    for k in ("deque.pop", "idxstack.pop", "counter-=1", "refstack.pop", "drain-compare"):
        for fi, ops in ((pop, o_pop), (rb, o_rb)):
            R.inst("%s: exactly one `%s` on every normal path" % (fi.short, k))
            if len(ops[k]) != 1:
                R.bad(fi, fi.node, "expected exactly one `%s`, found %d: pop and rollback no longer "
                                   "undo the same components of the call stack" % (k, len(ops[k])),
                      stmt=k)
                continue
            n = ops[k][0]
            if k in ("deque.pop", "idxstack.pop", "counter-=1"):
                # unconditional: dominates the normal exit
                cfg = fi.cfg
                ids = q.nodes_for(fi, n)
                if not cfg.must_pass(ids, cfg.exit, labels=("N", "T", "F")):
                    R.bad(fi, n, "`%s` is conditional: some normal path skips it" % k)
    # same comparison text in both, evaluated after the decrement
    if len(o_pop["drain-compare"]) == 1 and len(o_rb["drain-compare"]) == 1:
        a, b = o_pop["drain-compare"][0], o_rb["drain-compare"][0]
        R.inst("pop/rollback: identical refstack drain condition")
        if ast.dump(a) != ast.dump(b):
            R.bad(rb, b, "refstack drain condition differs from CallStack.pop (`%s` vs `%s`)"
                  % (norm(b), norm(a)))
        for fi, ops in ((pop, o_pop), (rb, o_rb)):
            if len(ops["counter-=1"]) == 1:
                R.inst("%s: drain comparison is evaluated after the counter decrement" % fi.short)
                if not q.dominated(fi, ops["counter-=1"], ops["drain-compare"][0]):
                    R.bad(fi, ops["drain-compare"][0], "refstack is compared with the counter before "
                                                       "the decrement: entries of the finished frame are "
                                                       "attributed to the caller")
        for fi, ops in ((pop, o_pop), (rb, o_rb)):
            cmpn = ops["drain-compare"][0]
            ok = (isinstance(cmpn, ast.Compare) and len(cmpn.ops) == 1 and isinstance(cmpn.ops[0], ast.Eq))
            R.inst("%s: drain condition is an equality with the frame counter" % fi.short)
            if not ok:
                R.bad(fi, cmpn, "drain condition is not `== self.counter`")
    # the drain loop must stop at the first entry of another frame (break in else)
    for fi in (pop, rb):
        loops = [n for n in walk_local(fi.node) if isinstance(n, ast.While) and q.mentions_attr(n.test, "refstack")]
        R.inst("%s: drain loop exists and terminates on foreign frame" % fi.short)
        if len(loops) != 1:
            R.bad(fi, fi.node, "refstack drain loop missing", stmt="while self.refstack")
    # rollback: removes, never adds
    R.inst("rollback: removes the failed node from the trace graph")
    rm = q.calls(rb, name=("remove_node", "remove_nodes_from", "remove_with_descs"))
    if not rm:
        R.bad(rb, rb.node, "rollback() does not remove the failed node from the trace graph",
              stmt="remove_node")
    R.inst("rollback: the only additions hand the failed node's precedents over to the nearest cached caller")
    for c in q.calls(rb, name=("add_node", "add_edges_from", "add_nodes_from", "add_path")):
        R.bad(rb, c, "rollback() adds to a dependency graph")
    adds = q.calls(rb, name="add_edge")
    TOP = "self[self.idxstack[-1]]"
    handed = False
    for c in adds:
        lp = enclosing_for(rb, c)
        it, snap = q.unsnapshot(rb, lp.iter) if lp is not None else (None, False)
        if lp is not None and not snap:
            R.bad(rb, lp, "the predecessors of the failed node are iterated live while edges are added")
        ok = (q.anorm(rb, c.func.value) == "node[OBJ].model.tracegraph" and len(c.args) == 2 and lp is not None
              and isinstance(lp.target, ast.Name) and norm(c.args[0]) == lp.target.id
              and q.anorm(rb, c.args[1]) == TOP
              and isinstance(it, ast.Call) and call_name(it) == "predecessors" and [norm(a) for a in it.args] == ["node"]
              and q.anorm(rb, it.func.value) == "node[OBJ].model.tracegraph")
        g = q.guards_of(rb, c)
        if not ok:
            R.bad(rb, c, "rollback() adds an edge other than (precedent of the failed node -> nearest cached caller)")
        elif not {("self", "T"), ("self.idxstack[-1] >= 0", "T"), ("node[OBJ].is_cached", "T")} <= set(g.resolved()):
            R.bad(rb, c, "precedents are handed over without a cached caller on the stack: guards %s" % sorted(g))
        elif rm and q.path_between(rb, rm[0], c):
            R.bad(rb, c, "precedents are read after the failed node was removed (there are none left)")
        else:
            handed = True
    R.inst("rollback: a caller that handles the error inherits the failed node's precedents")
    if not handed:
        R.bad(rb, rb.node, "a formula that catches its callee's error keeps no precedent for what the callee had used: "
                           "after that input changes the fallback value is still served", stmt="hand-over of precedents")
    R.inst("rollback: references read by the failed frame are re-tagged for the calling frame")
    rt = q.calls(rb, name="append", recv_endswith="refstack")
    okr = False
    for c in rt:
        a = c.args[0] if c.args else None
        if isinstance(a, ast.Tuple) and len(a.elts) == 2 and q.rnorm(rb, a.elts[0]) == "self.counter - 1" \
                and ("self", "T") in q.guards_of(rb, c) and o_rb["counter-=1"] and q.dominated(rb, o_rb["counter-=1"], c) \
                and o_rb["refstack.pop"] and not q.path_between(rb, c, o_rb["refstack.pop"][0]):
            okr = True
        else:
            R.bad(rb, c, "rollback() pushes a reference read that is not (caller's frame index, reference) after the drain")
    if not okr:
        R.bad(rb, rb.node, "references read by a failed callee are dropped although a caller may handle the error: the "
                           "caller is not invalidated when such a reference changes", stmt="re-tag of reference reads")
    else:
        # what is re-tagged is what was drained: the popped reference is kept
        keep = [x for x in walk_local(rb.node) if isinstance(x, ast.Call) and call_name(x) in ("append", "appendleft", "add")
                and x.args and isinstance(x.args[0], ast.Name) and x.args[0].id == "ref"]
        if not keep:
            R.bad(rb, rb.node, "drained reference reads are not kept for the caller", stmt="refs.append(ref)")
    R.inst("rollback: a value the failing formula assigned to its own element is dropped")
    oc = q.calls(rb, name="on_clear_trace")
    okv = False
    for c in oc:
        g = q.guards_of(rb, c)
        if q.anorm(rb, c.func.value) == "node[OBJ]" and [q.anorm(rb, a) for a in c.args] == ["node[KEY]"] \
                and g == {("node[OBJ].is_cached", "T"), ("node[OBJ].has_node(node[KEY])", "T")}:
            okv = True
    if not okv:
        R.bad(rb, rb.node, "an element on the failing chain can keep a value: a formula that assigns its own element and then "
                           "raises leaves the value in data without a graph node", stmt="drop value of the failed element")
    R.inst("rollback: records the node for the error traceback")
    if not q.calls(rb, name="append", recv_endswith="rolledback"):
        R.bad(rb, rb.node, "rollback() does not record the failed node in executor.rolledback",
              stmt="rolledback.append")


@rule("C05.R4", "C05", "DOM", "no store on a path that raises NoneReturnedError; store consumes the formula's return value",
      min_instances=4)
def r4(ctx, R):
    """In CellsImpl._store_value no write to `data` reaches `raise NoneReturnedError`, the
    raise is guarded by `value is not None` false and allow_none false; in on_eval_formula
    the stored value is the formula call itself."""
    fi = ctx.func("CellsImpl._store_value")
    rs = q.raises(fi, "NoneReturnedError")
    ws = [st for st, t in q.subscript_writes(fi, "data")]
    R.must(rs, "raise NoneReturnedError not found in _store_value")
    R.must(ws, "no write to data in _store_value")
    R.slot("_store_value", {"raises": [norm(r) for r in rs], "writes": [norm(w) for w in ws]})
    for w in ws:
        for r_ in rs:
            R.inst("_store_value: `%s` cannot precede `%s`" % (norm(w), norm(r_)[:40]))
            if q.path_between(fi, w, r_):
                R.bad(fi, w, "data is written on a path that then raises NoneReturnedError: "
                             "a failing element acquires a value")
    # truth table over (value is None, allow_none): store iff not None or allowed; raise iff None and not allowed
    def oc_for(is_none, allowed):
        def oc(e):
            t = norm(e)
            if t == "value is not None":
                return "F" if is_none else "T"
            if t == "value is None":
                return "T" if is_none else "F"
            if "allow_none" in t:
                return "T" if allowed else "F"
            return None
        return oc
    table = {}
    for is_none in (False, True):
        for allowed in (False, True):
            reached = q.run_abstract(fi, oc_for(is_none, allowed))
            stored = any(i in reached for w in ws for i in q.nodes_for(fi, w))
            raised = any(i in reached for r_ in rs for i in q.nodes_for(fi, r_))
            table["value_is_None=%s,allow_none=%s" % (is_none, allowed)] = {"stored": stored, "raised": raised}
            want_raise = is_none and not allowed
            R.inst("_store_value[value None=%s, allow_none=%s]: %s" % (is_none, allowed, "raise" if want_raise else "store"))
            if stored == want_raise or raised != want_raise:
                R.bad(fi, fi.node, "value %s, allow_none=%s: stored=%s raised=%s" % (
                    "None" if is_none else "not None", allowed, stored, raised),
                      stmt="_store_value table %s %s" % (is_none, allowed))
    R.slot("_store_value_truth_table", table)
    for spec in ("CellsImpl.on_eval_formula",):
        f2 = ctx.func(spec)
        st = q.calls(f2, name="_store_value")
        R.must(st, "no _store_value call in %s" % spec)
        for c in st:
            R.inst("%s: stored value is the formula's return value" % spec)
            val = c.args[1] if len(c.args) > 1 else None
            ok = False
            if val is not None:
                if isinstance(val, ast.Call) and val in _formula_call(f2):
                    ok = True
                elif isinstance(val, ast.Name):
                    # assigned from the formula call, and that assignment dominates the store
                    for n in walk_local(f2.node):
                        if isinstance(n, ast.Assign) and any(isinstance(t, ast.Name) and t.id == val.id
                                                             for t in n.targets) \
                                and isinstance(n.value, ast.Call) and n.value in _formula_call(f2):
                            if q.dominated(f2, [n], c):
                                ok = True
            if not ok:
                R.bad(f2, c, "value passed to _store_value is not the result of the formula call "
                             "(a value could be stored although the formula raised)")


@rule("C05.R5", "C05", "DOM", "a stored exception is re-raised by the top-level wrapper",
      min_instances=4)
def r5(ctx, R):
    """_start_exec: the try around _eval_formula is catch-all and stores sys.exc_info();
    with excinfo set no path returns normally unless is_formula_error_handled; the raised
    object is FormulaError(...) or excinfo[1]."""
    fi = ctx.func("NonThreadedExecutor._start_exec")
    cfg = fi.cfg
    ev = q.calls(fi, name="_eval_formula")
    R.must(len(ev) == 1, "expected one _eval_formula call")
    tr = [t for t in q.tries(fi) if any(ev[0] in list(ast.walk(s)) for s in t.body)]
    R.must(len(tr) == 1, "_eval_formula call not inside exactly one try")
    R.inst("_start_exec: catch-all handler stores sys.exc_info() in excinfo")
    hs = [h for h in tr[0].handlers if q.is_catch_all(h)]
    if not hs:
        R.bad(fi, tr[0], "handler around the evaluation is not catch-all", stmt="try: " + norm(ev[0]))
    else:
        ok = False
        for st, t in q.attr_writes(fi, attr="excinfo"):
            if isinstance(st, ast.Assign) and isinstance(st.value, ast.Call) and \
                    dotted(st.value.func) == "sys.exc_info" and any(st in list(ast.walk(b)) for h in hs for b in h.body):
                ok = True
        if not ok:
            R.bad(fi, hs[0], "catch-all handler does not store sys.exc_info() in self.excinfo")
    tests = q.test_nodes(fi, lambda e: q.text(e) == "self.excinfo")
    R.must(len(tests) >= 1, "test `if self.excinfo` not found")
    handled = q.test_nodes(fi, lambda e: q.text(e) == "self.is_formula_error_handled")
    R.inst("_start_exec: with excinfo set, normal return only in handled mode")
    # abstract run: every test of excinfo answers true, handled mode is off -> no normal return
    # after the evaluation (the call's own normal edge is where the run starts)
    val = lambda e: {"self.excinfo": "T", "self.is_formula_error_handled": "F"}.get(q.text(e))
    r = q.run_abstract(fi, val, starts=[t for t in tests])
    if cfg.exit in r:
        R.bad(fi, cfg.nodes[tests[0]].ast, "a failed evaluation can return normally (error swallowed)",
              path=q.explain_path(fi, [b for b, l in cfg.succ[tests[0]] if l == "T"], [cfg.exit]))
    tm = ctx.func("ErrorStack.tracemessage")
    R.inst("ErrorStack.tracemessage: the formula source is appended only when there is one")
    for x in walk_local(tm.node):
        if isinstance(x, (ast.BinOp, ast.AugAssign)) and isinstance(getattr(x, "op", None), ast.Add):
            ops = [x.left, x.right] if isinstance(x, ast.BinOp) else [x.value]
            for o in ops:
                if q.rnorm(tm, o).endswith(".formula.source"):
                    st_ = x if isinstance(x, ast.stmt) else None
                    g = q.guards_of(tm, x)
                    if not any((t.endswith("formula.source is not None") and l == "T") or (t.endswith("formula.source is None") and l == "F")
                               or (t.endswith("formula.source") and l == "T") for t, l in g):
                        R.bad(tm, x, "the error message concatenates formula.source, which is None for a function without "
                                     "retrievable source: the top-level call raises TypeError instead of FormulaError")
    R.inst("_start_exec: the test on excinfo dominates the normal return of the buffer")
    rets = [r_ for r_ in q.returns(fi) if r_.value is not None and q.mentions_attr(r_.value, "buffer")]
    R.must(rets, "return self.buffer not found")
    for r_ in rets:
        if not q.depends(fi, r_, lambda e: q.text(e) == "self.excinfo", "F"):
            R.bad(fi, r_, "buffer is returned without testing excinfo")
    R.inst("_start_exec: raised object is FormulaError(...) or the original exception")
    raised_ok = 0
    for r_ in q.raises(fi):
        e = r_.exc
        if e is None:
            continue
        txt = norm(e)
        if txt == "self.excinfo[1]":
            raised_ok += 1
        elif isinstance(e, ast.Call) and call_name(e) == "FormulaError":
            raised_ok += 1
        elif isinstance(e, ast.Name):
            # name bound to FormulaError(...)
            for n in walk_local(fi.node):
                if isinstance(n, ast.Assign) and any(isinstance(t, ast.Name) and t.id == e.id for t in n.targets) \
                        and isinstance(n.value, ast.Call) and call_name(n.value) == "FormulaError":
                    raised_ok += 1
                    break
            else:
                R.bad(fi, r_, "raises something other than FormulaError / the original exception")
        else:
            R.bad(fi, r_, "raises something other than FormulaError / the original exception")
    if raised_ok < 2:
        R.bad(fi, fi.node, "expected both `raise FormulaError` and `raise self.excinfo[1]` arms", stmt="raise arms")
    # FormulaError message carries the original exception
    R.inst("_start_exec: FormulaError message is built from excinfo")
    fe = q.calls(fi, name="format_exception_only")
    if not fe or not all(q.mentions_attr(c, "excinfo") for c in fe):
        R.bad(fi, fi.node, "FormulaError message no longer formats the original exception", stmt="format_exception_only")
