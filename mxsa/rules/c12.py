"""C12 - names are unique per space and the visible namespace equals the containers."""
import ast

from ..framework import rule
from ..astutil import dotted, call_name, call_recv, norm, walk_local, unparse, ancestors
from ..consteval import ceval, UNKNOWN, MAYBE
from .. import q
from .common import assigned_value, kw, arg, enclosing_for, new_cells_validates_name

META = {
    "explanation": (
        "Decides the structural clauses behind C12: (R1) every insertion of a user-named member "
        "(cells, space, reference, base relation, rename) is dominated by a clash test whose "
        "guarded raise is not provably dead (abstract constant folding), and _can_add has the "
        "required truth table over (model / name visible / name in a sub / same kind); (R2) the "
        "formula globals, getattr and dir all read the owner's one `namespace`, which is built "
        "from exactly the member containers with aligned map ids, and the model's get_attr reads "
        "the maps of the model namespace in order; (R3) in every chain map called 'refs' the "
        "space's own references precede the special names and the model's global references "
        "come last; chain-map lookup is first-map-wins."),
    "not_decided": ["the library's runtime _check_sanity assertions (they execute code)"],
    "assumptions": [],
}


def provably_empty(fi, name, repo):
    """All plain assignments of local `name` fold to an empty collection and nothing
    (augmented assignment, add/update/append call) can add to it."""
    vals = assigned_value(fi, name)
    if not vals:
        return False
    for n in walk_local(fi.node):
        if isinstance(n, ast.AugAssign) and isinstance(n.target, ast.Name) and n.target.id == name:
            return False
        if isinstance(n, ast.Call) and call_recv(n) == name and call_name(n) in (
                "add", "update", "append", "extend", "insert", "setdefault", "__ior__"):
            return False
    return all(isinstance(ceval(v, repo, fi), frozenset) and not ceval(v, repo, fi) for v in vals)


@rule("C12.R1", "C12", "DOM", "a non-vacuous clash test dominates every insertion of a named member", min_instances=10, also=("C11",))
def r1(ctx, R):
    """new_cells / rename_cells / rename_space / new_space / copy_space: `_can_add` false ->
    raise, dominating the insertion; new_ref: _find_name_in_subs; add_bases: member-name
    conflict over the MRO of the space and every descendant, not provably dead, before any
    instruction runs; ModelImpl.set_attr refuses a space name; _can_add truth table."""
    sites = [
        ("SpaceManager.new_cells", "UserCellsImpl", "CellsImpl"),
        ("SpaceManager.rename_cells", "on_rename", "CellsImpl"),
        ("SpaceManager.rename_space", "on_rename", "UserSpaceImpl"),
        ("SpaceUpdater.new_space", "UserSpaceImpl", "UserSpaceImpl"),
        ("SpaceUpdater.copy_space", "_copy_space_recursively", "EditableParentImpl"),
    ]
    for spec, sink, klass in sites:
        fi = ctx.func(spec)
        sinks = q.calls(fi, name=sink)
        tests = [n.id for n in fi.cfg.nodes if n.kind == "test" and q.mentions_call(n.ast, "_can_add")]
        R.inst("%s: _can_add(..., %s) guards `%s`" % (spec, klass, sink))
        if not sinks:
            R.need(False, "%s: sink %s not found" % (spec, sink))
        cas = q.calls(fi, name="_can_add")
        if not cas or not tests:
            R.bad(fi, sinks[0], "member is inserted without a name-clash test", stmt=sink)
            continue
        for ca in cas:
            if norm(ca.args[-1]) != klass:
                R.bad(fi, ca, "clash test is made for kind %s, the inserted member is a %s" % (norm(ca.args[-1]), klass))
        for s_ in sinks:
            for sid in q.nodes_for(fi, s_):
                if not fi.cfg.reachable(sid):
                    continue
                # with every _can_add test coming out false the sink must be unreachable
                def oc(e):
                    if q.mentions_call(e, "_can_add"):
                        # the operand is `not self._can_add(...)` split as the bare call: F = cannot add
                        return "F"
                    return None
                if sid in q.run_abstract(fi, oc):
                    R.bad(fi, s_, "insertion is reachable although _can_add said no")
        # an explicit name must be tested (auto-name loop may retry instead of raising)
        rs = [r_ for r_ in q.raises(fi) if any(t.startswith("self._can_add(") or t.startswith("self.manager._can_add(")
                                               for t, l in q.guards_of(fi, r_))]
        if not rs:
            R.bad(fi, cas[0], "a failed clash test does not raise")
    nc = ctx.func("SpaceManager.new_cells")
    R.inst("new_cells: the name that is tested is the name the cells will get (formula name resolved first)")
    ca_ = q.calls(nc, name="_can_add")
    res = [n_ for n_ in walk_local(nc.node) if isinstance(n_, ast.Assign) and norm(n_.targets[0]) == "name"
           and ca_ and not q.path_between(nc, ca_[0], n_) and "Formula(formula).name" in
           " ".join([norm(n_.value)] + [norm(v) for v in assigned_value(nc, norm(n_.value))])]
    if not res:
        R.bad(nc, ca_[0] if ca_ else nc.node, "the clash test sees name=None while CellsImpl.__init__ names the cells after its "
                                              "formula: new_cells(formula=foo) is accepted although foo is a child space or reference",
              stmt="resolve formula name before _can_add")
    R.inst("new_cells: an auto-generated name is drawn until the clash test accepts it (sub spaces included)")
    gn = [c for c in q.calls(nc, name="get_next") if (call_recv(c) or "").endswith("cellsnamer")]
    okl = False
    for c in gn:
        lp = enclosing_for(nc, c)
        if isinstance(lp, ast.While) and isinstance(lp.test, ast.Constant) and lp.test.value is True:
            brk = [b for b in ast.walk(lp) if isinstance(b, ast.Break)]
            if brk and any(("self._can_add(space, name, CellsImpl)", "T") in q.guards_of(nc, b) for b in brk) \
                    and any(t in ("is_valid_name(name)",) and l == "F" for t, l in q.guards_of(nc, lp)):
                okl = True
    if not okl:
        R.bad(nc, nc.node, "an auto-generated cells name is tested against the space's own namespace only: a sub space that "
                           "has a child space or reference of that name gets one name for two kinds of object",
              stmt="auto-name until _can_add")
    R.inst("auto-generated names avoid the whole namespace (cells, references and child spaces)")
    n_auto = 0
    for spec in (("SpaceUpdater.new_space", "SpaceManager.new_cells") if new_cells_validates_name(ctx)
                 else ("CellsImpl.__init__", "SpaceUpdater.new_space", "SpaceManager.new_cells")):
        f_ = ctx.func(spec)
        for c in q.calls(f_, name="get_next"):
            if (call_recv(c) or "").endswith(("cellsnamer", "spacenamer")):
                n_auto += 1
                a0 = norm(c.args[0]) if c.args else ""
                if a0 not in ("space.namespace", "parent.namespace"):
                    R.bad(f_, c, "auto-namer is given `%s`: an auto-generated name can equal an existing reference or child "
                                 "space (or cells) of the same space" % a0)
    R.need(n_auto >= 2, "expected >=2 auto-naming sites, found %d" % n_auto)
    # _can_add: decision structure
    ca = ctx.func("SharedSpaceOperations._can_add")
    R.inst("_can_add: model -> name not visible; name visible in the parent -> only a non-member; else every sub agrees in kind")
    rets = q.returns(ca)

    def which(is_model, in_ns):
        def oc(e):
            t = norm(e)
            if t == "parent is self.model":
                return "T" if is_model else "F"
            if t == "name in parent.namespace":
                return "T" if in_ns else "F"
            return None
        reached = q.run_abstract(ca, oc)
        return sorted({" ".join(norm(r_.value).split()) for r_ in rets for i in q.nodes_for(ca, r_) if i in reached})
    ALL_SUBS = "all((isinstance(sub, klass) for sub in self._iter_name_in_subs(parent, name, skip_self=True)))"
    want = {(True, False): ["name not in parent.namespace"], (True, True): ["name not in parent.namespace"],
            (False, True): ["not isinstance(parent._namespace.fresh[name], Impl)"], (False, False): [ALL_SUBS]}
    table = {}
    for k, v in want.items():
        got = which(*k)
        table["model=%s,visible=%s" % k] = got
        if got != v:
            if k == (False, False):
                R.bad(ca, ca.node, "for a name not yet visible in the parent, _can_add does not require *every* sub space that "
                                   "knows the name to hold the same kind of object (got %s)" % got, stmt="_can_add subs")
            else:
                R.bad(ca, ca.node, "_can_add%s returns %s, required %s" % (k, got, v), stmt="_can_add %s" % (k,))
    R.slot("_can_add", table)
    it = ctx.func("SharedSpaceOperations._iter_name_in_subs")
    R.inst("_iter_name_in_subs yields the object of every sub space whose namespace has the name")
    lp = [n for n in walk_local(it.node) if isinstance(n, ast.For)]
    ys = [n for n in walk_local(it.node) if isinstance(n, ast.Yield)]
    if not lp or call_name(lp[0].iter) != "_get_subs" or not ys or \
            q.guards_of(it, ys[0]) != {("name in %s.namespace" % norm(lp[0].target), "T")} or \
            any(isinstance(x, (ast.Break, ast.Return)) for x in ast.walk(lp[0])):
        R.bad(it, it.node, "not every sub space is searched for the name", stmt="for subspace in _get_subs: yield")
    # new_ref
    nr = ctx.func("SpaceManager.new_ref")
    R.inst("new_ref: a non-reference or non-global of that name in *any* sub is refused before creation")
    cr = q.calls(nr, name="on_create_ref")
    lps = [n for n in walk_local(nr.node) if isinstance(n, ast.For) and call_name(n.iter) == "_iter_name_in_subs"]
    rs = [r_ for r_ in q.raises(nr, "ValueError") if lps and any(r_ is x for x in ast.walk(lps[0]))]
    if not lps or not rs or not cr:
        R.bad(nr, nr.node, "new_ref does not test every sub space for a clashing name", stmt="for other in _iter_name_in_subs")
    else:
        for r_ in rs:
            if any(q.path_between(nr, c, r_) for c in cr):
                R.bad(nr, r_, "reference is created before the clash test")
        v_ = norm(lps[0].target)
        IS_REF, IS_GLOBAL = "isinstance(%s, ReferenceImpl)" % v_, "%s in self.model.global_refs.values()" % v_

        def refused(is_ref, is_global):
            def oc(e):
                t = norm(e)
                if t == IS_REF:
                    return "T" if is_ref else "F"
                if t in (IS_GLOBAL, IS_GLOBAL.replace(" in ", " not in ")):
                    pos = " not in " not in t
                    return "T" if (is_global == pos) else "F"
                return None
            reached = q.run_abstract(nr, oc)
            return any(i in reached for r_ in rs for i in q.nodes_for(nr, r_))
        if not refused(False, False):
            R.bad(nr, rs[0], "a cells or space of that name in a sub is not refused")
        if not refused(True, False):
            R.bad(nr, rs[0], "a space-level reference of that name in a sub is not refused")
        if refused(True, True):
            R.bad(nr, rs[0], "a model-level reference of that name is refused (shadowing it is legal)")
        if any(isinstance(x, ast.Break) for x in ast.walk(lps[0])):
            R.bad(nr, lps[0], "the clash test stops at the first sub space")
        itc = lps[0].iter
        if [norm(a) for a in itc.args[:2]] != ["space", "name"]:
            R.bad(nr, itc, "the clash test does not look for the new name below the edited space")
    # the self-check demands of the value registry exactly what the registration rule puts there
    cs_ = ctx.func("ModelImpl._check_sanity")
    nr_ = ctx.func("ReferenceManager.new_ref")
    R.inst("ModelImpl._check_sanity and ReferenceManager.new_ref agree: only non-Interface values are registered")
    reg = q.calls(nr_, name="setdefault", recv_endswith="_valid_to_refs")
    reg_cond = any(t == "isinstance(value, Interface)" and l == "F" for c in reg for t, l in q.guards_of(nr_, c))
    asserts = [a for a in walk_local(cs_.node) if isinstance(a, ast.Assert) and "_valid_to_refs" in norm(a.test)]
    for a in asserts:
        g = q.guards_of(cs_, a)
        if reg_cond and not any(t in ("isinstance(r.interface, Interface)",) and l == "F" for t, l in g):
            R.bad(cs_, a, "the self-check requires every model-level reference in the value registry, but values that are "
                          "modelx objects are never registered: m.x = <space> makes _check_sanity fail")
    # ModelImpl.set_attr
    ms = ctx.func("ModelImpl.set_attr")
    R.inst("ModelImpl.set_attr refuses the name of a space")
    rs = q.raises(ms)
    if not rs or ("name in self.spaces", "T") not in q.guards_of(ms, rs[0]):
        R.bad(ms, ms.node, "a model-level reference can take the name of a space", stmt="name in self.spaces")
    us = ctx.func("UserSpaceImpl.set_attr")
    R.inst("UserSpaceImpl.set_attr creates a reference only for an unused name or to shadow a model-level one")
    for c in q.calls(us, name="new_ref"):
        g = q.guards_of(us, c)
        ok = ("name in self.namespace", "F") in g or (("name in self.refs", "T") in g and ("name in self.own_refs", "F") in g
                                                      and ("self.refs[name].parent is self.model", "T") in g
                                                      and ("name in self.cells", "F") in g
                                                      and any(t in ("name in self.named_spaces", "name in self.spaces",
                                                                    "name in self.all_spaces") and l == "F" for t, l in g))
        if not ok:
            R.bad(us, c, "a reference can be created over an existing cells/space name: a model-level reference of the same "
                         "name hides the cells / child space from the test (guards: %s)" % sorted(g))
    # add_bases / new_space: member-name conflict over the linearisation
    ck = ctx.func("SpaceUpdater._check_name_conflict")
    rs = q.raises(ck, "NameError")
    R.inst("_check_name_conflict: live pairwise test over spaces, cells and refs along the given MRO")
    if not rs:
        R.bad(ck, ck.node, "no member-name conflict test", stmt="raise NameError")
    else:
        r_ = rs[0]
        guards = [t for t, l in q.guards_of(ck, r_) if l == "T"]
        dead = [t for t in guards if t.isidentifier() and provably_empty(ck, t, ctx.repo)]
        if dead:
            R.bad(ck, r_, "the conflict test is vacuous: `%s` is provably empty, the raise is dead code; a base "
                          "whose cells clashes with a reference or child space of the sub is accepted" % dead[0])
        kinds = [n for n in walk_local(ck.node) if isinstance(n, (ast.List, ast.Tuple)) and
                 all(isinstance(e, ast.Constant) for e in n.elts) and {e.value for e in n.elts} >= {"cells", "spaces"}]
        if not kinds or {e.value for e in kinds[0].elts} != {"spaces", "cells", "refs"}:
            R.bad(ck, ck.node, "conflict test does not compare spaces, cells and refs", stmt="kinds")
        # every unordered pair of the three kinds is intersected
        inter = [x for x in walk_local(ck.node) if isinstance(x, ast.BinOp) and isinstance(x.op, ast.BitAnd)]
        okp = False
        for x in inter:
            a_, b_ = x.left, x.right
            if not (isinstance(a_, ast.Name) and isinstance(b_, ast.Name)):
                continue
            fo = [n_ for n_ in ancestors(ck.pm, x) if isinstance(n_, ast.For)]
            wh = [n_ for n_ in ancestors(ck.pm, x) if isinstance(n_, ast.While)]
            # idiom 1: while kinds: names = kinds.pop(); for others in kinds: names & others
            if fo and wh and isinstance(fo[0].target, ast.Name) and {a_.id, b_.id} >= {fo[0].target.id}:
                other = ({a_.id, b_.id} - {fo[0].target.id} or {None}).pop()
                pv = [v for v in assigned_value(ck, other)] if other else []
                if norm(fo[0].iter) == norm(wh[0].test) and pv and isinstance(pv[0], ast.Call) and call_name(pv[0]) == "pop" \
                        and norm(pv[0].func.value) == norm(wh[0].test):
                    okp = True
            # idiom 2: for a, b in itertools.combinations(kinds, 2)
            if fo and isinstance(fo[0].target, ast.Tuple) and {a_.id, b_.id} == {norm(e) for e in fo[0].target.elts} \
                    and isinstance(fo[0].iter, ast.Call) and call_name(fo[0].iter) == "combinations" \
                    and len(fo[0].iter.args) == 2 and norm(fo[0].iter.args[1]) == "2":
                okp = True
        if not okp:
            R.bad(ck, ck.node, "the conflict test does not intersect every pair of (spaces, cells, refs): a clash between two of "
                               "the kinds is accepted", stmt="all pairs")
        iters = [n.iter for n in ast.walk(ck.node) if isinstance(n, (ast.For, ast.comprehension))]
        if not any(norm(i) == "mro" for i in iters):
            R.bad(ck, ck.node, "conflict test does not collect the names along the MRO", stmt="for sname in mro")
        # pairwise: the accumulated set is built from intersections of two name sets
        aug = [n for n in walk_local(ck.node) if isinstance(n, ast.AugAssign) and isinstance(n.value, ast.BinOp)
               and isinstance(n.value.op, ast.BitAnd)]
        if not aug and not dead:
            R.bad(ck, r_, "conflict is not the pairwise intersection of the name sets", stmt="pairwise")
    ab = ctx.func("SpaceUpdater.add_bases")
    ex = q.calls(ab, name="execute", recv_endswith="_instructions")
    cc = q.calls(ab, name="_check_name_conflict")
    R.inst("add_bases: conflict test for the space and every descendant, before the first instruction")
    loops = [n for n in walk_local(ab.node) if isinstance(n, ast.For) and "descendants" in norm(n.iter)]
    if not cc or not any(cc[0] is x for l in loops for x in ast.walk(l)) or "get_mro(desc)" not in norm(cc[0]):
        R.bad(ab, ab.node, "add_bases does not test the members of every descendant for conflicts", stmt="_check_name_conflict(get_mro(desc))")
    elif ex and q.path_between(ab, ex[0], cc[0]):
        R.bad(ab, cc[0], "conflict is detected only after members were already re-derived")
    ns = ctx.func("SpaceUpdater.new_space")
    cc = q.calls(ns, name="_check_name_conflict")
    mk = q.calls(ns, name="UserSpaceImpl")
    R.inst("new_space: members of the bases (and the refs argument) are tested for conflicts before the space exists")
    if not cc or not mk or not q.dominated(ns, cc, mk[0]) or "get_mro(node)" not in norm(cc[0]) or "refs" not in norm(cc[0]):
        R.bad(ns, ns.node, "new_space(bases=[...]) accepts bases whose members clash in kind", stmt="_check_name_conflict in new_space")
    isi = ctx.func("ItemSpaceImpl.__init__")
    R.inst("ItemSpaceImpl.__init__: explicit name must be free in the parent")
    rs = q.raises(isi, "ValueError")
    if not rs:
        R.bad(isi, isi.node, "ItemSpace name is not tested", stmt="raise ValueError")


@rule("C12.R2", "C12", "TABLE", "one namespace object feeds formulas, getattr and dir; it equals the containers",
      min_instances=9)
def r2(ctx, R):
    """BaseSpace.__getattr__/__dir__/__contains__, BaseSpaceImpl.get_attr, Model.__dir__ read the
    owner's `namespace`; the space namespace is ImplChainMap([_cells, _refs, _named_spaces]) with
    map_ids ('cells','refs','spaces'); the model namespace is [_named_spaces, _global_refs] and
    ModelImpl.get_attr reads spaces then global_refs."""
    ga = ctx.func("BaseSpace.__getattr__")
    R.inst("BaseSpace.__getattr__: `name in self._impl.namespace` -> get_attr(name)")
    c = q.calls(ga, name="get_attr")
    if not c or ("name in self._impl.namespace", "T") not in q.guards_of(ga, c[0]):
        R.bad(ga, ga.node, "attribute access does not consult the space namespace", stmt="__getattr__")
    if not q.raises(ga, "AttributeError"):
        R.bad(ga, ga.node, "a missing name does not raise AttributeError", stmt="raise AttributeError")
    for spec in ("BaseSpace.__dir__", "Model.__dir__"):
        f = ctx.func(spec)
        R.inst("%s lists namespace.interfaces" % spec)
        rr = q.returns(f)
        if len(rr) != 1 or norm(rr[0].value) != "list(self._impl.namespace.interfaces)":
            R.bad(f, f.node, "dir() does not list the namespace", stmt="return")
    gi = ctx.func("BaseSpaceImpl.get_attr")
    R.inst("BaseSpaceImpl.get_attr returns namespace.interfaces[name]")
    rr = q.returns(gi)
    if len(rr) != 1 or norm(rr[0].value) != "self.namespace.interfaces[name]":
        R.bad(gi, gi.node, "get_attr does not return the namespace entry", stmt="return")
    uc = ctx.func("UserSpace.__contains__")
    R.inst("UserSpace.__contains__(str) tests the namespace")
    if not any(norm(r_.value) == "item in self._impl.namespace" for r_ in q.returns(uc)):
        R.bad(uc, uc.node, "`name in space` does not consult the namespace", stmt="return")
    bi = ctx.func("BaseSpaceImpl.__init__")
    cm = [c for c in q.calls(bi, name="ImplChainMap") if c.args and isinstance(c.args[0], ast.Constant)
          and c.args[0].value == "namespace"]
    R.inst("space namespace = ImplChainMap([_cells, _refs, _named_spaces], map_ids=(cells, refs, spaces))")
    if len(cm) != 1:
        R.bad(bi, bi.node, "space namespace chain map not found", stmt="ImplChainMap('namespace')")
    else:
        maps = cm[0].args[3] if len(cm[0].args) > 3 else kw(cm[0], "maps")
        ids = kw(cm[0], "map_ids")
        mt = [norm(e) for e in maps.elts] if isinstance(maps, ast.List) else None
        it = [e.value for e in ids.elts] if isinstance(ids, ast.Tuple) else None
        R.slot("space_namespace", {"maps": mt, "map_ids": it})
        if mt != ["self._cells", "self._refs", "self._named_spaces"]:
            R.bad(bi, cm[0], "space namespace is not built from exactly (cells, refs, child spaces): %s" % mt)
        if it != ["cells", "refs", "spaces"]:
            R.bad(bi, cm[0], "map_ids do not line up with the maps: %s" % it)
        if norm(cm[0].args[1]) != "self":
            R.bad(bi, cm[0], "namespace owner is not the space")
    R.inst("NamespaceServer.__init__ receives that chain map")
    ns = [c for c in q.calls(bi, name="__init__") if call_recv(c) == "NamespaceServer"]
    if not ns or not cm or ns[0].args[1] is not cm[0]:
        R.bad(bi, bi.node, "the namespace served is not the chain map of the containers", stmt="NamespaceServer.__init__")
    hv = ctx.func("HasFormula.get_valuerefs")
    R.inst("get_valuerefs reads the 'refs' map id")
    if not any(isinstance(n, ast.Constant) and n.value == "refs" for n in walk_local(hv.node)):
        R.bad(hv, hv.node, "value references are looked up under another map id", stmt="'refs'")
    mi = ctx.func("ModelImpl.__init__")
    cm = [c for c in q.calls(mi, name="ImplChainMap") if c.args and isinstance(c.args[0], ast.Constant)
          and c.args[0].value == "namespace"]
    R.inst("model namespace = ImplChainMap([_named_spaces, _global_refs]); get_attr reads spaces then global_refs")
    mt = None
    if len(cm) == 1 and len(cm[0].args) > 3 and isinstance(cm[0].args[3], ast.List):
        mt = [norm(e) for e in cm[0].args[3].elts]
    if mt != ["self._named_spaces", "self._global_refs"]:
        R.bad(mi, mi.node, "model namespace is not (spaces, global refs): %s" % mt, stmt="ImplChainMap('namespace')")
    mg = ctx.func("ModelImpl.get_attr")
    order = [norm(n.ast) for n in sorted((n for n in mg.cfg.nodes if n.kind == "test"), key=lambda n: n.line)
             if isinstance(n.ast, ast.Compare)]
    if order != ["name in self.spaces", "name in self.global_refs"]:
        R.bad(mg, mg.node, "ModelImpl.get_attr does not read the namespace maps in order: %s" % order, stmt="get_attr order")
    else:
        for r_ in q.returns(mg):
            g = q.guards_of(mg, r_)
            want = "self.spaces[name].interface" if ("name in self.spaces", "T") in g else "self.global_refs[name].interface"
            if q.anorm(mg, r_.value) != want:
                R.bad(mg, r_, "get_attr returns an object from another container")
    ps = ctx.func("BaseParentImpl.spaces")
    R.inst("spaces / named_spaces are the same container (_named_spaces)")
    # covered by C01.R4(c) property table; referenced here for the model
    ui = ctx.func("InterfaceMixin._update_interfaces")
    R.inst("_update_interfaces rebuilds {name: impl.interface} from the container's own items")
    ws = [st for st, t in q.attr_writes(ui, attr="_interfaces", recv="self")]
    if len(ws) != 1 or norm(ws[0].value) != "{k: v.interface for k, v in self.items()}":
        R.bad(ui, ui.node, "interface view is not rebuilt from the container", stmt="_interfaces =")


@rule("C12.R3", "C12", "TABLE", "reference precedence: own > special names > (dynamic base) > model; first map wins",
      min_instances=4)
def r3(ctx, R):
    """Every chain map named 'refs' ends with model._global_refs and has _own_refs before
    _sys_refs; CustomChainMap.__getitem__ returns from the first map containing the key and
    __iter__ lets earlier maps win."""
    n = 0
    for f in ctx.repo.all_funcs(modules=["modelx.core.space"]):
        for c in q.calls(f, name=("RefChainMap", "ImplChainMap")):
            if c.args and isinstance(c.args[0], ast.Constant) and c.args[0].value == "refs":
                n += 1
                maps = c.args[3] if len(c.args) > 3 else kw(c, "maps")
                mt = [norm(e) for e in maps.elts] if isinstance(maps, ast.List) else []
                R.inst("%s refs maps %s" % (f.short, mt))
                if not mt or mt[-1] != "self.model._global_refs":
                    R.bad(f, c, "model-level references are not the last map: they would shadow space-level names")
                if "self._own_refs" not in mt or "self._sys_refs" not in mt or \
                        mt.index("self._own_refs") > mt.index("self._sys_refs"):
                    R.bad(f, c, "own references do not precede the special names")
                if "self._dynbase_refs" in mt and mt.index("self._dynbase_refs") < mt.index("self._own_refs"):
                    R.bad(f, c, "base references precede the instance's own references")
                if any("_allargs" in m for m in mt) and not mt[0].startswith("*self._allargs"):
                    R.bad(f, c, "parameters do not take precedence in the dynamic space")
    R.need(n >= 2, "expected >=2 'refs' chain maps, found %d" % n)
    gi = ctx.func("CustomChainMap.__getitem__")
    R.inst("CustomChainMap.__getitem__: first map that has the key wins")
    lp = [x for x in walk_local(gi.node) if isinstance(x, ast.For)]
    if not lp or norm(lp[0].iter) != "self.maps" or not any(isinstance(x, ast.Return) and norm(x.value) == "mapping[key]"
                                                              for x in ast.walk(lp[0])):
        R.bad(gi, gi.node, "lookup does not return from the first map in order", stmt="for mapping in self.maps")
    it = ctx.func("CustomChainMap.__iter__")
    R.inst("CustomChainMap.__iter__: later maps are overridden by earlier ones")
    lp = [x for x in walk_local(it.node) if isinstance(x, ast.For)]
    if not lp or norm(lp[0].iter) != "reversed(self.maps)":
        R.bad(it, it.node, "iteration order no longer lets earlier maps win", stmt="reversed(self.maps)")
