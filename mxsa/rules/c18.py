"""C18 - an IOSpec lives exactly as long as a reference to its value."""
import ast

from ..framework import rule
from ..astutil import dotted, call_name, call_recv, norm, walk_local, unparse, ancestors
from .. import q
from .common import assigned_value, kw, arg, enclosing_for

META = {
    "explanation": (
        "Decides the structural clauses behind C18: (R1) new_pandas / new_module / "
        "new_excel_range undo the spec in a handler whose exception classes cover every class "
        "explicitly raised in the reference-creation closure, and IOManager.new_spec removes the "
        "IO it created when loading fails; (R2) ReferenceManager.new_ref/del_ref/change_ref/"
        "update_value each delegate to the model/space operation, mirror the change in "
        "_valid_to_refs under id(value) unless the value is an Interface, and delete the spec "
        "when the last reference goes - nobody else writes that registry; (R3) every operation "
        "that removes a *defined* reference from a live container goes through a "
        "ReferenceManager release; (R4) _specs is written only in IOManager.add_spec under "
        "_can_add_spec, every concrete spec/IO class overrides the hooks that are called on it, "
        "close_model releases before removing; (R5) the creating methods refuse, before the spec "
        "exists, a name whose assignment would not bind a reference."),
    "not_decided": ["file contents written and read back equal (runtime values)"],
    "assumptions": [],
}

CREATORS = ("EditableParentImpl.new_pandas", "EditableParentImpl.new_module", "EditableParentImpl.new_excel_range")
SPEC_HOOKS = ("_on_load_value", "_can_update_value", "_on_pickle", "_on_unpickle", "_on_serialize",
              "_on_unserialize", "_can_add_other", "value")
IO_HOOKS = ("_on_write", "_on_update_value")


def _raised_classes(fi, seen=None):
    """Exception class names explicitly raised in fi ('must not happen' raises excluded)."""
    out = set()
    for r_ in q.raises(fi):
        e = r_.exc
        if e is None:
            continue
        nm = dotted(e.func) if isinstance(e, ast.Call) else dotted(e)
        if nm is None:
            continue
        msg = norm(e)
        if "must not happen" in msg.lower():
            continue
        out.add(nm.split(".")[-1])
    return out


@rule("C18.R1", "C18", "PAIR", "creation undoes the spec when the assignment is rejected", min_instances=8)
def r1(ctx, R):
    """new_spec(...) is followed by set_attr inside a try whose handler calls del_spec(<that
    spec>) and raises; the handled classes cover every class raised in set_attr,
    ReferenceManager.new_ref/change_ref, SpaceManager.new_ref/change_ref/_check_subs_relrefs,
    ModelImpl.new_ref/change_ref; IOManager.new_spec removes a freshly created IO on failure."""
    closure = ["UserSpaceImpl.set_attr", "ModelImpl.set_attr", "ReferenceManager.new_ref",
               "ReferenceManager.change_ref", "SpaceManager.new_ref", "SpaceManager.change_ref",
               "SpaceManager._check_subs_relrefs", "ModelImpl.new_ref", "ModelImpl.change_ref",
               "ModelImpl.del_ref", "UserSpaceImpl.on_create_ref", "UserSpaceImpl.on_change_ref"]
    raised = set()
    for spec in closure:
        raised |= _raised_classes(ctx.func(spec))
    raised -= {"RuntimeError"}    # only 'must not happen' arms raise it
    R.slot("raised_in_reference_creation_closure", sorted(raised))
    for spec in CREATORS:
        fi = ctx.func(spec)
        ns = q.calls(fi, name="new_spec")
        sa = q.calls(fi, name="set_attr", recv="self")
        R.must(len(ns) == 1 and len(sa) == 1, "%s: new_spec / set_attr not found" % spec)
        var = None
        st = fi.pm[ns[0]]
        if isinstance(st, ast.Assign) and isinstance(st.targets[0], ast.Name):
            var = st.targets[0].id
        tr = [t for t in q.tries(fi) if any(sa[0] in list(ast.walk(s)) for s in t.body)]
        R.inst("%s: set_attr inside try; handler del_spec(%s) and raises" % (spec, var))
        if not tr:
            R.bad(fi, sa[0], "assignment is not guarded: a rejected name leaves the spec registered")
            continue
        hs = tr[0].handlers
        okh = False
        for h in hs:
            ds = [c for c in ast.walk(h) if isinstance(c, ast.Call) and call_name(c) == "del_spec"]
            if ds and [norm(a) for a in ds[0].args] == [var] and q.reraises(h) is not None and \
                    isinstance(h.body[-1], ast.Raise):
                okh = True
        if not okh:
            R.bad(fi, tr[0], "handler does not delete the spec it created and re-raise", stmt="except: del_spec")
        R.inst("%s: handled classes cover %s" % (spec, sorted(raised)))
        handled = set()
        for h in hs:
            if q.is_catch_all(h):
                handled |= raised | {"Exception"}
            handled |= {n.split(".")[-1] for n in q.handler_names(h)}
        if "Exception" in handled:
            handled |= raised
        missing = raised - handled
        if missing:
            R.bad(fi, tr[0], "exceptions %s raised while creating the reference are not handled: "
                             "the spec survives the rejected creation" % sorted(missing), stmt="except classes")
        R.inst("%s: nothing between new_spec and the try can fail" % spec)
        cfg = fi.cfg
        for nsid in q.nodes_for(fi, ns[0]):
            for said in q.nodes_for(fi, sa[0]):
                for n_ in cfg.nodes:
                    if n_.ast is None or n_.id in (nsid, said) or not n_.may_raise:
                        continue
                    if cfg.path_exists(nsid, n_.id, avoid={said}, labels=("N", "T", "F")) and \
                            cfg.path_exists(n_.id, said, labels=("N", "T", "F")):
                        R.bad(fi, n_.ast, "a failing statement between spec creation and the guarded assignment "
                                          "leaves the spec behind")
    nsf = ctx.func("IOManager.new_spec")
    R.inst("IOManager.new_spec: a fresh IO is removed when loading/adding fails, and re-raised")
    tr = q.tries(nsf)
    okn = False
    for t in tr:
        body_calls = {call_name(c) for s in t.body for c in ast.walk(s) if isinstance(c, ast.Call)}
        if {"_on_load_value", "add_spec"} <= body_calls:
            for h in t.handlers:
                if q.is_catch_all(h) and isinstance(h.body[-1], ast.Raise) and any(
                        isinstance(x, ast.Delete) and "self.ios[" in norm(x) for x in ast.walk(h)):
                    okn = True
    if not okn:
        R.bad(nsf, nsf.node, "a failed load leaves an empty IO registered for that path", stmt="try/except in new_spec")


@rule("C18.R2", "C18", "SIB", "ReferenceManager mirrors every reference change in the value registry", min_instances=8)
def r2(ctx, R):
    """new_ref / del_ref / change_ref / update_value: delegate to impl.new_ref|del_ref|change_ref
    (model) or spmgr.<same> (space); update _valid_to_refs under id(value) unless Interface;
    delete the spec through IOManager.del_spec when the list empties; no other writer."""
    n = 0
    for f in ctx.repo.all_funcs():
        for x in walk_local(f.node):
            if isinstance(x, ast.Attribute) and x.attr == "_valid_to_refs":
                par = f.pm.get(x)
                write = False
                if isinstance(par, ast.Subscript) and isinstance(par.ctx, (ast.Store, ast.Del)):
                    write = True
                if isinstance(par, ast.Attribute) and par.attr in ("setdefault", "pop", "clear", "update", "popitem"):
                    write = True
                if isinstance(x.ctx, ast.Store):
                    write = True
                if write:
                    n += 1
                    R.inst("_valid_to_refs written in %s" % f.short)
                    if f.cls is None or f.cls.name != "ReferenceManager":
                        R.bad(f, x, "value registry written outside ReferenceManager")
    R.need(n >= 5, "expected >=5 writes of _valid_to_refs, found %d" % n)
    for op in ("new_ref", "del_ref", "change_ref"):
        fi = ctx.func("ReferenceManager." + op)
        R.inst("ReferenceManager.%s delegates to the model and the space operation" % op)
        cs = q.calls(fi, name=op)
        recvs = sorted(call_recv(c) or "" for c in cs)
        want_model = any(r in ("impl", "impl.model") for r in recvs)
        want_space = any(r.endswith("spmgr") for r in recvs)
        if not (want_model and want_space):
            R.bad(fi, fi.node, "%s does not delegate to both ModelImpl.%s and SpaceManager.%s" % (op, op, op), stmt="delegate")
        else:
            for c in cs:
                g = q.guards_of(fi, c)
                want = "isinstance(impl, UserSpaceImpl)" if (call_recv(c) or "").endswith("spmgr") else "isinstance(impl, ModelImpl)"
                if (want, "T") not in g:
                    R.bad(fi, c, "delegation is not dispatched on the kind of parent")
    nr = ctx.func("ReferenceManager.new_ref")
    R.inst("new_ref: registry append under id(value) unless Interface")
    ap = q.calls(nr, name="append", recv="refs")
    sd = q.calls(nr, name="setdefault", recv_endswith="_valid_to_refs")
    if not ap or not sd or norm(sd[0].args[0]) != "id(value)" or ("isinstance(value, Interface)", "F") not in q.guards_of(nr, ap[0]):
        R.bad(nr, nr.node, "a new reference is not recorded under id(value)", stmt="_valid_to_refs.setdefault(id(value))")
    elif [norm(a) for a in ap[0].args] != ["ref"]:
        R.bad(nr, ap[0], "recorded object is not the created reference")
    for op in ("del_ref", "change_ref"):
        fi = ctx.func("ReferenceManager." + op)
        ds = q.calls(fi, name="del_spec")
        R.inst("ReferenceManager.%s: spec deleted when the last reference to the value goes" % op)
        if not ds:
            R.bad(fi, fi.node, "the spec is never released", stmt="del_spec")
        else:
            g = q.guards_of(fi, ds[0])
            if ("refs", "F") not in g or ("spec", "T") not in g:
                R.bad(fi, ds[0], "spec deletion is not tied to the reference list becoming empty")
            dl = [st for st, t in q.subscript_writes(fi, "_valid_to_refs") if isinstance(st, ast.Delete)]
            if not dl or ("refs", "F") not in q.guards_of(fi, dl[0]):
                R.bad(fi, fi.node, "empty registry entry is not removed", stmt="del _valid_to_refs[...]")
        rm = q.calls(fi, name="remove", recv="refs")
        R.inst("ReferenceManager.%s: the reference is removed from the value's list" % op)
        if not rm:
            R.bad(fi, fi.node, "reference stays in the value registry", stmt="refs.remove")
        # the id is taken before the operation (the reference object is replaced by it)
        deleg = q.calls(fi, name=op)
        R.inst("ReferenceManager.%s: id of the old value is captured before delegating" % op)
        keys = [c.args[0] for c in q.calls(fi, name=("get", "pop"), recv_endswith="_valid_to_refs") if c.args]
        ok = bool(keys) and bool(deleg)
        sd = q.single_defs(fi)
        for k in keys:
            full = q.rnorm(fi, k, depth=6)
            if not (full.startswith("id(") and full.endswith(".interface)")):
                ok = False
            # every statement that contributes to the key (through locals) runs before the delegate
            todo, seen_n, stmts = [k], set(), []
            while todo:
                e = todo.pop()
                for x in ast.walk(e):
                    if isinstance(x, ast.Name) and x.id in sd and x.id not in seen_n:
                        seen_n.add(x.id)
                        todo.append(sd[x.id])
                        stmts.extend(n_ for n_ in walk_local(fi.node) if isinstance(n_, ast.Assign) and any(
                            isinstance(t, ast.Name) and t.id == x.id or isinstance(t, ast.Tuple) and any(
                                isinstance(y, ast.Name) and y.id == x.id for y in t.elts) for t in n_.targets))
            reads_interface_inline = any(isinstance(x, ast.Attribute) and x.attr == "interface" for x in ast.walk(k))
            for d in deleg:
                if any(q.path_between(fi, d, st) for st in stmts):
                    ok = False
                if reads_interface_inline and q.path_between(fi, d, k):
                    ok = False
                if not stmts and not reads_interface_inline:
                    ok = False
        if not ok:
            R.bad(fi, fi.node, "old value's id is read after the reference was replaced", stmt="prev id")
    cr = ctx.func("ReferenceManager.change_ref")
    R.inst("change_ref: the new binding is registered before the old one is released (x = x keeps its spec)")
    sd_ = q.calls(cr, name="setdefault", recv_endswith="_valid_to_refs")
    rm_ = q.calls(cr, name="remove", recv="refs")
    def _reg_first():
        cfg = cr.cfg
        ts = [n_.id for n_ in cfg.nodes if n_.kind == "test" and norm(n_.ast) == "isinstance(value, Interface)"]
        r_ = cfg.reach([cfg.entry], avoid=set(q.nodes_for(cr, sd_)), avoid_edges={(t, "T") for t in ts})
        return not any(i in r_ for i in q.nodes_for(cr, rm_[0]))
    if sd_ and rm_ and not _reg_first():
        R.bad(cr, rm_[0], "re-assigning the same value empties its reference list before the new reference is registered: "
                          "the spec is deleted although the reference still holds the value")
    R.inst("change_ref: new binding recorded under id(value) unless Interface")
    sd = q.calls(cr, name="setdefault", recv_endswith="_valid_to_refs")
    if not sd or norm(sd[0].args[0]) != "id(value)" or ("isinstance(value, Interface)", "F") not in q.guards_of(cr, sd[0]):
        R.bad(cr, cr.node, "the re-bound reference is not recorded under the new value", stmt="setdefault(id(value))")
    uv = ctx.func("ReferenceManager.update_value")
    R.inst("update_value: every reference of the old value is re-bound and re-registered under id(new_value)")
    ws = [st for st, t in q.subscript_writes(uv, "_valid_to_refs") if isinstance(st, ast.Assign)]
    ext = [c for c in q.calls(uv, name="extend") if isinstance(c.func.value, ast.Call) and call_name(c.func.value) == "setdefault"
           and (call_recv(c.func.value) or "").endswith("_valid_to_refs") and norm(c.func.value.args[0]) == "id(new_value)"]
    pp = q.calls(uv, name="pop", recv_endswith="_valid_to_refs")
    if ws:
        R.bad(uv, ws[0], "the entry of the new value is overwritten: references already bound to it drop out of the registry "
                         "and its spec is released too early")
    if not ext or [norm(a) for a in ext[0].args] != ["newrefs"] or not pp or q.anorm(uv, pp[0].args[0]) != "id(old_value)" \
            or not q.calls(uv, name="_impl_change_ref"):
        R.bad(uv, uv.node, "update_value does not move the references to the new value", stmt="update_value")
    elif not q.dominated(uv, pp, ext[0]):
        R.bad(uv, ext[0], "new entry is written before the old one is popped (same id would be lost)")
    R.inst("update_value: unknown value is refused before anything changes")
    rs = q.raises(uv, "ValueError")
    us = q.calls(uv, name="update_spec_value")
    if not rs or ("refs is None", "T") not in q.guards_of(uv, rs[0]) or (us and q.path_between(uv, us[0], rs[0])):
        R.bad(uv, uv.node, "value not referenced is not refused first", stmt="raise ValueError")
    da = ctx.func("ReferenceManager.del_all_spec")
    R.inst("del_all_spec deletes every spec of the model")
    if not q.calls(da, name="del_spec") or "self.specs" not in " ".join(norm(v) for v in assigned_value(da, "specs")):
        R.bad(da, da.node, "closing does not release every spec", stmt="del_all_spec")


@rule("C18.R3", "C18", "REACH", "defined references leave live containers only through the ReferenceManager",
      min_instances=5, also=("C13",))
def r3(ctx, R):
    """User-facing removals of a defined reference (del space.x, del model.x, x = v re-binding,
    deleting a space) reach ReferenceManager.del_ref / change_ref; the low-level removers
    (on_del_ref, ModelImpl.del_ref) are called only from the manager's own closure."""
    routes = [
        ("UserSpaceImpl.del_ref", "del_ref", "self.model.refmgr"),
        ("ModelImpl.del_attr", "del_ref", "self.refmgr"),
        ("ModelImpl.set_attr", "change_ref", "self.refmgr"),
        ("UserSpaceImpl.set_attr", "change_ref", "self.model.refmgr"),
    ]
    for spec, op, recv in routes:
        fi = ctx.func(spec)
        R.inst("%s -> %s.%s" % (spec, recv, op))
        if not q.calls(fi, name=op, recv=recv):
            R.bad(fi, fi.node, "%s removes/re-binds a reference without the ReferenceManager" % spec, stmt=op)
    dd = ctx.func("SpaceUpdater.del_defined_space")
    R.inst("del_defined_space releases the defined references of every removed space")
    rel = [c for c in q.calls(dd, name="del_ref") if (call_recv(c) or "").endswith("refmgr")]
    okd = False
    for c in rel:
        loops = [a for a in ancestors(dd.pm, c) if isinstance(a, ast.For)]
        if len(loops) >= 2 and any(norm(l.iter) == "nodes_removed" for l in loops) \
                and any("own_refs" in norm(l.iter) for l in loops):
            g = q.guards_of(dd, c)
            inner = [n_ for n_ in dd.cfg.nodes if n_.kind == "test" and n_.ast is not None and any(
                a is loops[0] for a in ancestors(dd.pm, n_.ast))]
            # inside the loops the only condition is "defined": every defined reference is released
            if any(t.endswith(".is_defined()") and l == "T" for t, l in g) and \
                    {norm(n_.ast) for n_ in inner} == {t for t, l in g if t.endswith(".is_defined()")}:
                okd = True
    if not okd:
        R.bad(dd, dd.node, "a deleted space takes its defined references with it without releasing them: the IOSpec of a "
                           "value bound only there stays in model.iospecs", stmt="refmgr.del_ref for removed spaces")
    else:
        rm = q.calls(dd, name="remove_nodes_from", recv="self._graph")
        if rm and not q.dominated(dd, rel, rm[0]):
            pass
    # low-level removers
    allowed = {"on_del_ref": {"SpaceManager.del_ref", "UserSpaceImpl.on_change_ref", "UserSpaceImpl.on_inherit"},
               }
    for f in ctx.repo.all_funcs(modules=["modelx.core"]):
        for c in q.calls(f, name="on_del_ref"):
            R.inst("on_del_ref called in %s" % f.short)
            if f.short not in allowed["on_del_ref"]:
                R.bad(f, c, "reference removed below the ReferenceManager")
        for c in q.calls(f, name="del_ref"):
            r = call_recv(c) or ""
            if r.endswith("spmgr") and f.short != "ReferenceManager.del_ref":
                R.bad(f, c, "SpaceManager.del_ref called outside the ReferenceManager")
            if r in ("impl", "self") and f.short not in ("ReferenceManager.del_ref", "ModelImpl.change_ref",
                                                         "UserSpaceImpl.del_attr"):
                R.bad(f, c, "ModelImpl.del_ref called outside the ReferenceManager")
        for c in q.calls(f, name=("new_ref", "change_ref")):
            r = call_recv(c) or ""
            if r.endswith("spmgr") and f.short not in ("ReferenceManager.new_ref", "ReferenceManager.change_ref",
                                                       "ReferenceManager._impl_change_ref"):
                R.inst("spmgr.%s called in %s" % (call_name(c), f.short))
                R.bad(f, c, "a defined reference is created/re-bound below the ReferenceManager: the value registry misses it")


@rule("C18.R4", "C18", "WMC", "spec registration is guarded; hooks are implemented; close releases first",
      min_instances=10, also=("C19",))
def r4(ctx, R):
    """`_specs[id(spec)] = spec` only in IOManager.add_spec under _can_add_spec; removal only in
    del_spec, which drops the IO when it empties; every concrete BaseIOSpec / BaseSharedIO
    subclass overrides the hooks called on it; _can_add_spec asks every existing spec."""
    n = 0
    for f in ctx.repo.all_funcs(modules=["modelx.io", "modelx.core"]):
        for st, t in q.subscript_writes(f, "_specs"):
            n += 1
            R.inst("_specs write in %s" % f.short)
            if isinstance(st, ast.Delete):
                if f.short != "IOManager.del_spec":
                    R.bad(f, st, "spec removed outside IOManager.del_spec")
            elif f.short != "IOManager.add_spec":
                R.bad(f, st, "spec registered outside IOManager.add_spec")
            elif ("io_._can_add_spec(spec)", "T") not in q.guards_of(f, st):
                R.bad(f, st, "spec registered without the location clash test")
    R.need(n >= 2, "expected >=2 _specs writes")
    ad = ctx.func("IOManager.add_spec")
    R.inst("add_spec raises when the location is taken")
    rs = q.raises(ad, "ValueError")
    if not rs or ("io_._can_add_spec(spec)", "F") not in q.guards_of(ad, rs[0]):
        R.bad(ad, ad.node, "a clashing spec is silently ignored", stmt="raise ValueError")
    pl = ctx.func("custom_pickle:IOSpecUnpickler.persistent_load")
    R.inst("IOSpecUnpickler: a file taken out of a zip keeps its relative path under the temporary root")
    dv = [q.anorm(pl, v) for v in assigned_value(pl, "dst")]
    if not dv or any(v != "self.reader.temproot.joinpath(path)" for v in dv):
        R.bad(pl, pl.node, "files of the archive are flattened into one temporary folder: two IO files with the same name in "
                           "different folders collide and the second spec loads the first file's value", stmt="dst = temproot/path")
    er = ctx.func("ExcelRange._can_add_other")
    R.inst("ExcelRange._can_add_other: two ranges are disjoint only if one ends strictly before the other begins")
    ncmp = 0
    for x in walk_local(er.node):
        if isinstance(x, ast.Compare) and len(x.ops) == 1 and isinstance(x.ops[0], (ast.Lt, ast.LtE, ast.Gt, ast.GtE)) \
                and "_cells" in norm(x) and (norm(x).count(".row") == 2 or norm(x).count(".column") == 2):
            ncmp += 1
            l_, r_ = norm(x.left), norm(x.comparators[0])
            strict = isinstance(x.ops[0], (ast.Lt, ast.Gt))
            ends_before = (("[-1]" in l_) and ("[0][0]" in r_)) if isinstance(x.ops[0], (ast.Lt, ast.LtE)) else \
                (("[-1]" in r_) and ("[0][0]" in l_))
            if not strict or not ends_before:
                R.bad(er, x, "ranges that share a boundary row/column are taken to be disjoint: two live specs claim the same cells")
    if ncmp != 4:
        R.bad(er, er.node, "expected the four strict comparisons (rows and columns, both directions), found %d" % ncmp, stmt="overlap test")
    cas = ctx.func("BaseSharedIO._can_add_spec")
    R.inst("_can_add_spec asks every existing spec")
    rr = q.returns(cas)
    if len(rr) != 1 or norm(rr[0].value) != "all((c._can_add_other(spec) for c in self._specs.values()))":
        R.bad(cas, cas.node, "_can_add_spec does not consult all existing specs of the file", stmt="return")
    ds = ctx.func("IOManager.del_spec")
    R.inst("del_spec drops the IO when its last spec goes")
    di = q.calls(ds, name="_del_io")
    if not di or not any(t.endswith(".specs") and l == "F" for t, l in q.guards_of(ds, di[0])):
        R.bad(ds, ds.node, "an IO without specs stays registered (its path stays taken)", stmt="_del_io")
    # an IO leaves the table only when it holds no spec (update_path re-keys it: delete + insert of the same object)
    import re as _re

    def _empty_guard(g):
        for t, l in g:
            if l == "F" and t.endswith(".specs"):
                return True
            if l == "T" and (_re.fullmatch(r"not .*\.specs", t) or _re.fullmatch(r"len\(.*\.specs\) == 0", t)
                             or _re.fullmatch(r"len\(.*\.specs\) < 1", t)):
                return True
        return False
    for f in ctx.repo.module("modelx.io.baseio").all_funcs:
        if f.cls is None or f.cls.name != "IOManager":
            continue
        for st, t in q.subscript_writes(f, "ios"):
            if not isinstance(st, ast.Delete) or norm(t.value) != "self.ios":
                continue
            R.inst("%s: `%s` only for an IO without specs" % (f.short, norm(st)))
            if f.short == "IOManager.update_path":
                continue        # re-keyed below in the same branch
            if f.short == "IOManager._del_io":
                rs_ = [r_ for r_ in q.raises(f) if any(t2.endswith(".specs") and l2 == "T" for t2, l2 in q.guards_of(f, r_))]
                if not rs_ or q.path_between(f, st, rs_[0]):
                    R.bad(f, st, "_del_io can drop an IO that still holds specs")
                continue
            if not _empty_guard(q.guards_of(f, st)):
                R.bad(f, st, "a file entry is dropped although it may still hold live specs: their values stay bound but are "
                             "no longer listed, found or written (guards: %s)" % sorted(q.guards_of(f, st)))
    gs = ctx.func("IOManager.get_spec_from_value")
    R.inst("get_spec_from_value searches the asking model's IOs and the absolute-path ones only")
    iv = [norm(v) for v in assigned_value(gs, "ios")]
    upd = [c for c in q.calls(gs, name="update", recv="ios")]
    its_ = [norm(n_.iter) for n_ in ast.walk(gs.node) if isinstance(n_, (ast.For, ast.comprehension))]
    if iv != ["self.get_ios(io_group)"] or not upd or [norm(a) for a in upd[0].args] != ["self.get_ios(None)"] or \
            "ios.values()" not in its_ or any("self.ios" in t for t in its_):
        R.bad(gs, gs.node, "a value's spec is looked up across all open models: closing or editing one model deletes "
                           "another model's IOSpec for the same object", stmt="ios = get_ios(io_group) + get_ios(None)")
    gi = ctx.func("IOManager.get_ios")
    R.inst("get_ios filters by group")
    if "if group == io_group" not in " ".join(ast.unparse(gi.node).split()):
        R.bad(gi, gi.node, "IOs are not filtered by the model they belong to", stmt="group == io_group")
    R.inst("every IO registry key is built by _get_io_key (absolute paths are shared, relative ones per model)")
    IM = ctx.cls("IOManager")
    nkeys = 0
    for f in IM.methods.values():
        if f.name == "_get_io_key":
            continue
        for x in walk_local(f.node):
            keyexpr = None
            if isinstance(x, ast.Subscript) and norm(x.value) == "self.ios":
                keyexpr = x.slice
            if isinstance(x, ast.Compare) and len(x.ops) == 1 and isinstance(x.ops[0], (ast.In, ast.NotIn)) \
                    and norm(x.comparators[0]) == "self.ios":
                keyexpr = x.left
            if isinstance(x, ast.Call) and call_name(x) == "get" and call_recv(x) == "self.ios" and x.args:
                keyexpr = x.args[0]
            if keyexpr is None:
                continue
            nkeys += 1
            src = keyexpr
            if isinstance(keyexpr, ast.Name):
                vs = assigned_value(f, keyexpr.id)
                src = vs[0] if vs else keyexpr
            ok = (isinstance(src, ast.Call) and call_name(src) == "_get_io_key") or \
                 (isinstance(src, ast.Subscript) and "self.ios.inverse" in norm(src)) or \
                 (isinstance(src, ast.Call) and call_name(src) == "next") or \
                 (isinstance(src, ast.Name) and not assigned_value(f, src.id))
            if not ok:
                R.bad(f, x, "IO registry key `%s` is not built by _get_io_key: absolute and relative locations are "
                            "keyed inconsistently, two specs can claim one file" % norm(keyexpr))
    R.need(nkeys >= 6, "expected >=6 uses of the IO registry key, found %d" % nkeys)
    B = ctx.cls("BaseIOSpec")
    for ci in sorted(B.subclasses, key=lambda c: c.key):
        if not ci.module.name.startswith("modelx.io"):
            continue
        for h in SPEC_HOOKS:
            R.inst("%s overrides %s" % (ci.name, h))
            f = ci.lookup(h)
            if f is None or f.cls is B:
                R.bad(ci.module.relpath, ci.node, "%s does not implement %s (NotImplementedError at run time)" % (ci.name, h),
                      stmt="%s.%s" % (ci.name, h))
        R.inst("%s.io_class is a BaseSharedIO subclass" % ci.name)
        ioc = ci.lookup_const("io_class")
        t = ctx.repo.resolve_class(ci.module, norm(ioc)) if ioc is not None else None
        if t is None or ctx.cls("BaseSharedIO") not in t.mro:
            R.bad(ci.module.relpath, ci.node, "%s.io_class is not a shared IO class" % ci.name, stmt="io_class")
    S = ctx.cls("BaseSharedIO")
    for ci in sorted(S.subclasses, key=lambda c: c.key):
        if not ci.module.name.startswith("modelx.io"):
            continue
        for h in IO_HOOKS:
            R.inst("%s overrides %s" % (ci.name, h))
            f = ci.lookup(h)
            if f is None or f.cls is S:
                R.bad(ci.module.relpath, ci.node, "%s does not implement %s" % (ci.name, h), stmt="%s.%s" % (ci.name, h))


@rule("C18.R5", "C18", "DOM", "a created spec is always bound to a reference", min_instances=6)
def r5(ctx, R):
    """Each creating method refuses, before new_spec, a name whose assignment would not bind a
    reference (`name in namespace and name not in refs`); in set_attr every branch reached with
    the complementary condition ends in ReferenceManager.new_ref / change_ref or raises."""
    chk = ctx.func("EditableParentImpl._check_ref_name")
    R.inst("_check_ref_name raises for a visible name that is not a reference")
    rs = q.raises(chk)
    g = q.guards_of(chk, rs[0]) if rs else set()
    if not rs or ("name in self.namespace", "T") not in g or ("name not in self.refs", "T") not in g \
            and ("name in self.refs", "F") not in g:
        R.bad(chk, chk.node, "the pre-check does not refuse cells / space names", stmt="raise")
    for spec in CREATORS:
        fi = ctx.func(spec)
        ns = q.calls(fi, name="new_spec")
        ck = q.calls(fi, name="_check_ref_name", recv="self")
        R.inst("%s: name is checked before the spec is created" % spec)
        if not ck or not ns or not q.dominated(fi, ck, ns[0]) or [norm(a) for a in ck[0].args] != ["name"]:
            R.bad(fi, ns[0] if ns else fi.node, "a spec can be created for a name that set_attr routes to a cells: "
                                                "the spec is left without any reference", stmt="_check_ref_name(name)")
    us = ctx.func("UserSpaceImpl.set_attr")
    R.inst("UserSpaceImpl.set_attr: with the name a reference or unused, every normal path binds through the ReferenceManager")

    def oc(e):
        t = norm(e)
        if t == "is_valid_name(name)":
            return "T"
        if t == "name in self.cells":
            return "F"
        return None
    cfg = us.cfg
    binds = set(q.nodes_for(us, q.calls(us, name=("new_ref", "change_ref"), recv="self.model.refmgr")))
    reached = q.run_abstract(us, oc)
    # remove binding nodes: EXIT must not be reachable without them on these paths
    seen, stack = set(), [cfg.entry]
    while stack:
        a = stack.pop()
        if a in seen or a in binds:
            continue
        seen.add(a)
        nd = cfg.nodes[a]
        want = oc(nd.ast) if nd.kind == "test" else None
        for b, lab in cfg.succ[a]:
            if lab == "X" or (want and lab in "TF" and lab != want):
                continue
            stack.append(b)
    if cfg.exit in seen:
        R.bad(us, us.node, "set_attr can return normally for a reference name without creating/re-binding a reference",
              stmt="set_attr reference arms")
    ms = ctx.func("ModelImpl.set_attr")
    R.inst("ModelImpl.set_attr: every normal path binds through the ReferenceManager")
    binds = q.calls(ms, name=("new_ref", "change_ref"), recv="self.refmgr")
    if not binds or not ms.cfg.must_pass(q.nodes_for(ms, binds), ms.cfg.exit, labels=("N", "T", "F")):
        R.bad(ms, ms.node, "ModelImpl.set_attr can return without binding a reference", stmt="set_attr arms")
