"""One module per property; importing a module registers its rules."""
import importlib

PROPS = ["C01", "C02", "C03", "C04", "C05", "C06", "C07", "C08", "C09", "C10",
         "C11", "C12", "C13", "C14", "C17", "C18", "C19"]
NOT_APPLICABLE = ["C15", "C16", "C20"]


def load(prop=None):
    mods = {}
    for p in PROPS:
        try:
            mods[p] = importlib.import_module("mxsa.rules." + p.lower())
        except ModuleNotFoundError as e:
            if "mxsa.rules." + p.lower() not in str(e):
                raise
    return mods
