"""C11 - rejected edits change nothing; the inheritance relation stays well-formed."""
import ast

from ..framework import rule
from ..astutil import dotted, call_name, call_recv, norm, walk_local, unparse, ancestors
from .. import q
from .common import assigned_value, kw, arg, enclosing_for, new_cells_validates_name

META = {
    "explanation": (
        "Decides the structural clauses behind C11: (R1) validate-before-mutate - for every edit "
        "operation of the frozen operation table no path leads from a definitional mutation "
        "(container mutators, definitional field writes, input removal, registry and graph "
        "commit) to a rejection (explicit raise, construction of a Formula/ParamFunc from an "
        "argument of the operation), with callees summarised over the call graph "
        "(may-mutate / may-reject / mutates-then-rejects fixpoint) and undo handlers "
        "recognised; (R2) every value that becomes the name of a space, cells or model passed "
        "a true is_valid_name test, came from an auto-namer or was copied from an existing "
        "object; (R3) SpaceUpdater operations work on a copy of the inheritance graph, test "
        "acyclicity and the MRO of the node and every descendant before the first instruction, "
        "and commit the graph last, on the normal path only; a fresh updater per operation."),
    "not_decided": ["that all *values* stay correct after a rejection (runtime)"],
    "assumptions": [
        "re-parsing a formula source that was already accepted does not fail",
        "raises whose message is 'must not happen' and assert statements are not rejections",
    ],
}

# ---- classification ------------------------------------------------------------------
MUT_CALLS = {"set_item", "del_item", "rename_item", "sort_items", "set_defined", "_update_manager",
             "relabel_nodes"}
DEF_FIELDS = {"formula", "is_cached", "name", "interface", "_is_derived", "refmode", "is_relative", "path", "source"}
VALIDATING_CTORS = {"Formula", "ParamFunc", "cls"}

# edit operations (entry points of user edits); composites are excluded with the reason
OPERATIONS = [
    "SpaceManager.rename_space", "SpaceManager.del_cells", "SpaceManager.del_ref", "SpaceManager.new_cells",
    "SpaceManager.copy_cells", "SpaceManager.rename_cells", "SpaceManager.sort_cells",
    "SpaceManager.set_cells_property", "SpaceManager.set_cells_formula", "SpaceManager.set_cache",
    "SpaceManager.del_cells_formula", "SpaceManager.new_ref", "SpaceManager.change_ref",
    "SpaceUpdater.new_space", "SpaceUpdater.add_bases", "SpaceUpdater.remove_bases", "SpaceUpdater.del_defined_space",
    "ReferenceManager.new_ref", "ReferenceManager.del_ref", "ReferenceManager.change_ref",
    "ModelImpl.new_ref", "ModelImpl.del_ref", "ModelImpl.change_ref", "ModelImpl.set_attr", "ModelImpl.del_attr",
    "ModelImpl.rename", "System.new_model", "System.rename_model", "System.close_model",
    "UserSpaceImpl.set_attr", "UserSpaceImpl.del_attr", "UserSpaceImpl.del_ref",
    "ItemSpaceParent.set_formula", "ItemSpaceParent.del_formula",
    "CellsImpl.set_value", "CellsImpl.set_value_from_key", "UserCellsImpl.set_doc",
    "UserCellsImpl.on_set_property", "UserCellsImpl.on_rename", "CellsImpl.__init__",
    "CellsMaker.create_or_change_cells",
]
EXCLUDED = {
    "SpaceUpdater.copy_space": "composite of new_space/copy_cells: inner validations re-check names already accepted in the source",
    "SpaceUpdater._copy_space_recursively": "composite (see copy_space)",
    "UserSpaceImpl.new_cells_from_module": "composite importer",
    "UserSpaceImpl.reload": "composite importer",
    "ReferenceManager.update_value": "re-binds references whose values are not Interfaces: _check_subs_relrefs cannot reject them",
}
# functions never followed when summarising (diagnostics / lookups, not edits)
NO_FOLLOW = {"_check_sanity", "check_sanity", "get_object", "get_object_from_idtuple", "_get_object", "__getattr__",
             "get_attr", "__repr__", "get_repr", "repr_self", "repr_parent", "get_fullname", "fresh", "_refresh",
             "notify", "on_namespace_change", "clear_all_values", "clear_value_at", "clear_with_descs", "clear_obj",
             "clear_attr_referrers", "on_clear_trace", "del_all_itemspaces", "clear_itemspace_at", "_del_itemspace",
             "clear_subs_rootitems", "clear_all_cells", "get_mro", "get_relative", "get_relative_interface",
             "eval_node", "get_value", "get_value_from_key", "get_itemspace", "call", "__call__", "__getitem__",
             "get_impl_from_name", "get_impl_from_namelist", "execute_selected", "is_valid_name", "get_next",
             "tracemessage", "get_node_repr", "to_node", "interface", "update_spec_value", "del_spec", "_del_io",
             "get_spec_from_value", "del_all_spec", "on_delete", "set_null_impl", "get_deriv_bases", "_get_space_bases",
             "_get_subs", "ordered_subs", "ordered_preds", "bind", "new_spec", "add_spec", "_can_add", "_find_name_in_subs",
             "get_property", "is_scalar", "change_dynsub_refs", "wrap_impl", "_update_interfaces", "observe",
             "append_observer", "_bind_args", "_init_child_spaces", "_init_dynbaserefs", "_init_cells", "_init_refs",
             "_init_allargs", "_init_own_refs", "_init_root", "new_space_from_module", "copy_space", "reload",
             "_reload", "replace_docstring", "_sort", "_rename_item"}


def _is_must_not_happen(r_):
    t = norm(r_)
    if t in ("raise RuntimeError", "raise RuntimeError()", "raise ValueError", "raise NotImplementedError"):
        return True     # bare internal assertion
    return "must not happen" in t.lower() or "NotImplementedError" in t


def _direct_mutations(ctx, f):
    """AST nodes in f that are definitional mutations by themselves."""
    out = []
    is_init = f.name == "__init__"
    for c in q.calls(f):
        nm = call_name(c)
        if nm in MUT_CALLS:
            r = call_recv(c) or ""
            if nm == "relabel_nodes" and "self._graph" not in norm(c):
                continue
            out.append(c)
        elif nm in ("add", "remove", "discard") and (call_recv(c) or "").endswith("input_keys"):
            out.append(c)
        elif nm == "clear_value_at" and f.short == "CellsImpl.set_value_from_key":
            out.append(c)       # discards an existing input together with its dependents
        elif nm in ("pop",) and (call_recv(c) or "").split(".")[-1] in ("models", "_models"):
            out.append(c)
    for st, t in q.attr_writes(f, attr=tuple(DEF_FIELDS)):
        if is_init and dotted(t.value) == "self":
            continue
        if f.cls is not None and f.cls.name in ("Formula", "NullFormula", "ParamFunc", "ModuleSource", "BoundFunction",
                                                 "CellsBoundFunction", "ModelWriter", "ModelReader", "BaseSharedIO",
                                                 "BaseIOSpec", "Instruction", "CellsMaker", "AutoNamer"):
            continue
        out.append(st)
    for st, t in q.subscript_writes(f, ("models", "_models", "_valid_to_refs")):
        out.append(st)
    for st, t in q.attr_writes(f, attr="_graph"):
        if dotted(t.value) == "self.manager":
            out.append(st)
    return out


def _direct_rejections(ctx, f):
    out = []
    for r_ in q.raises(f):
        if r_.exc is None:
            continue        # bare re-raise inside a handler: not a new rejection
        if _is_must_not_happen(r_):
            continue
        out.append(r_)
    for c in q.calls(f):
        nm = call_name(c)
        if nm in VALIDATING_CTORS and c.args and isinstance(c.args[0], ast.Name) and c.args[0].id in f.params:
            if nm == "cls":
                vs = [norm(v) for x in assigned_value(f, "cls") for v, _ in q.arms(f, x)]
                if not any(v in ("Formula", "func.__class__", "formula.__class__") for v in vs):
                    continue
            out.append(c)
        elif nm == "__class__" or (isinstance(c.func, ast.Attribute) and c.func.attr == "__class__"):
            pass
    return out


NO_FOLLOW_CLASSES = {"Formula", "NullFormula", "ParamFunc", "ModuleSource", "BoundFunction", "CellsBoundFunction",
                     "AutoNamer", "TraceGraph", "ReferenceGraph", "SpaceGraph", "NullImpl", "Interface"}

# (function, mutation text, rejection text) pairs that are infeasible, with the invariant
INFEASIBLE = {
    ("System.new_model", "self._rename_samename(name)"):
        "`name in self.models` holds on that path, and only valid names are ever keys of the registry, "
        "so ModelImpl.__init__ cannot reject the name",
    ("System._rename_samename", "self.rename_model(backupname, name)"):
        "rename_model returned False on the path to the raise, i.e. it did not re-key the registry",
}


class Summaries:
    def __init__(self, ctx):
        self.ctx = ctx
        self.funcs = [f for f in ctx.repo.all_funcs(modules=["modelx.core"]) if f.outer is None
                      and not (f.cls is not None and f.cls.name in NO_FOLLOW_CLASSES)]
        self.byq = {f.qual: f for f in self.funcs}
        self.dm = {f.qual: _direct_mutations(ctx, f) for f in self.funcs}
        self.dr = {f.qual: _direct_rejections(ctx, f) for f in self.funcs}
        self.mut = {f.qual: bool(self.dm[f.qual]) for f in self.funcs}
        # rejection roots: set of (qual of the function holding the raise/ctor, normalised text)
        self.roots = {f.qual: {(f.qual, norm(n)) for n in self.dr[f.qual]} for f in self.funcs}
        self.bad = {f.qual: [] for f in self.funcs}
        self._callee_cache = {}
        self._fix()

    def rej(self, q_):
        return bool(self.roots[q_])

    def callees(self, f, call):
        key = id(call)
        if key in self._callee_cache:
            return self._callee_cache[key]
        out = []
        site = self.ctx.cg.site_of(call)
        if site is not None and site.name not in NO_FOLLOW and site.targets and \
                isinstance(call.func, ast.Attribute) and isinstance(call.func.value, ast.Name) and \
                any(p == "name" for t, p in site.targets):
            # isinstance narrowing: `if isinstance(impl, ModelImpl): impl.del_ref(name)`
            rn = call.func.value.id
            for t_, l_ in q.guards_of(f, call):
                if l_ == "T" and t_.startswith("isinstance(%s, " % rn):
                    cname = t_[len("isinstance(%s, " % rn):-1]
                    if self.ctx.repo.has_cls(cname):
                        g = self.ctx.repo.cls(cname).lookup(site.name)
                        out = [g] if g is not None and g.qual in self.byq else []
                        self._callee_cache[key] = out
                        return out
        if site is not None and site.name not in NO_FOLLOW:
            ts = [t for t, p in site.targets if t.qual in self.byq]
            precise = [t for t, p in site.targets if p in ("exact", "ref") and t.qual in self.byq]
            out = precise if precise else (ts if 0 < len(ts) <= 5 else [])
        self._callee_cache[key] = out
        return out

    def ref_callees(self, f):
        out = []
        for cs in self.ctx.cg.sites.get(f.qual, []):
            if cs.kind == "ref" and cs.name not in NO_FOLLOW:
                out.extend((cs.node, t) for t, p in cs.targets if t.qual in self.byq)
        return out

    def _passes_param(self, call, g, pname):
        """Does `call` give callee g a (non-None) argument for parameter `pname`?"""
        k = kw(call, pname)
        if k is not None:
            return not (isinstance(k, ast.Constant) and k.value is None)
        params = [p for p in g.params if p not in ("self", "cls")]
        if pname in params:
            i = params.index(pname)
            a = g.node.args
            if any(x.arg == pname for x in a.kwonlyargs):
                return False
            if len(call.args) > i and not any(isinstance(x, ast.Starred) for x in call.args):
                v = call.args[i]
                return not (isinstance(v, ast.Constant) and v.value is None)
            if any(k_.arg is None for k_ in call.keywords):
                return True
            return False
        return True     # parameter not in this callee's signature: value comes from elsewhere

    def _discharged(self, f, call, g, root):
        """A rejection root of callee g that cannot fire at this call site."""
        # validation of a formula/func argument that this call does not pass
        for ctor in VALIDATING_CTORS:
            if root[1].startswith(ctor + "("):
                inner = root[1][len(ctor) + 1:]
                pname = inner.split(",")[0].split(")")[0].strip()
                if pname.isidentifier() and pname in g.params and not self._passes_param(call, g, pname):
                    return True
        # set_value_from_key pre-checks exactly the condition under which _store_value rejects
        if g.short == "CellsImpl._store_value" and "NoneReturnedError" in root[1]:
            for r_ in q.raises(f, "NoneReturnedError"):
                gd = q.guards_of(f, r_)
                if ("value is None", "T") in gd and ("self.get_property('allow_none')", "F") in gd:
                    if q.dominated(f, [r_], call) or not q.path_between(f, call, r_) and \
                            all(f.cfg.must_pass([t for t in q.test_nodes(f, lambda e: norm(e) == "value is None")], c_)
                                for c_ in q.nodes_for(f, call)):
                        return True
        return False

    def _fix(self):
        changed = True
        while changed:
            changed = False
            for f in self.funcs:
                m = self.mut[f.qual]
                roots = set(self.roots[f.qual])
                for c in q.calls(f):
                    for g in self.callees(f, c):
                        m = m or self.mut[g.qual]
                        for root in self.roots[g.qual]:
                            if not self._discharged(f, c, g, root):
                                roots.add(root)
                for node, g in self.ref_callees(f):
                    m = m or self.mut[g.qual]
                    roots |= self.roots[g.qual]
                if m != self.mut[f.qual] or roots != self.roots[f.qual]:
                    self.mut[f.qual], self.roots[f.qual] = m, roots
                    changed = True
        rounds = 0
        changed = True
        while changed and rounds < 8:
            changed = False
            rounds += 1
            for f in self.funcs:
                d = self.check(f)
                if len(d) != len(self.bad[f.qual]):
                    self.bad[f.qual] = d
                    changed = True

    def effects(self, f):
        """-> (M nodes, J nodes, why_m, why_j, jroots) ; jroots[node] = rejection roots reachable through node"""
        M, J, wm, wj, jr = [], [], {}, {}, {}
        for n in self.dm[f.qual]:
            M.append(n)
            wm[n] = "`%s`" % norm(n)[:70]
        for n in self.dr[f.qual]:
            J.append(n)
            wj[n] = "`%s`" % norm(n)[:80]
            jr[n] = {(f.qual, norm(n))}
        for c in q.calls(f):
            for g in self.callees(f, c):
                if self.mut[g.qual] and c not in M:
                    M.append(c)
                    wm[c] = "`%s` (mutates via %s)" % (norm(c)[:50], g.short)
                rs = {r_ for r_ in self.roots[g.qual] if not self._discharged(f, c, g, r_)}
                if rs:
                    if c not in J:
                        J.append(c)
                        wj[c] = "`%s` (may reject in %s)" % (norm(c)[:50], g.short)
                    jr.setdefault(c, set()).update(rs)
        for node, g in self.ref_callees(f):
            pass
        return M, J, wm, wj, jr

    def _loop_invariant_validation(self, f, call, lp, roots):
        """All rejection roots behind `call` are validating constructors of a callee parameter whose
        argument at this call site does not change between iterations (accepted once = accepted again)."""
        if not roots:
            return False
        if not isinstance(lp, ast.For):
            return False
        loop_names = {n.id for n in ast.walk(lp.target) if isinstance(n, ast.Name)}
        for n in ast.walk(lp):
            if isinstance(n, ast.Assign):
                for t in n.targets:
                    loop_names |= {x.id for x in ast.walk(t) if isinstance(x, ast.Name)}
        for rq, rtxt in roots:
            if not any(rtxt.startswith(c + "(") for c in VALIDATING_CTORS):
                return False
        args = [a for a in call.args] + [k.value for k in call.keywords]
        names = {x.id for a in args for x in ast.walk(a) if isinstance(x, ast.Name)}
        # the validated value must come from a loop-invariant argument
        inv = names - loop_names
        return bool(inv & {"func", "formula", "value"})

    def check(self, f):
        """All problems of f: [(kind, m, j, why_m, why_j, roots) | ('via', node, g)]"""
        M, J, wm, wj, jr = self.effects(f)
        cfg = f.cfg
        out = []
        seen = set()
        for c in q.calls(f):
            for g in self.callees(f, c):
                if self.bad[g.qual]:
                    out.append(("via", c, g))
        for node, g in self.ref_callees(f):
            if self.bad[g.qual]:
                out.append(("via", node, g))
        for m in M:
            for j in J:
                if (f.short, norm(m)) in INFEASIBLE:
                    continue
                roots = frozenset(jr.get(j, set()))
                if m is j:
                    lp = enclosing_for(f, m)
                    if lp is None:
                        continue
                    if self._loop_invariant_validation(f, m, lp, roots):
                        continue
                    key = ("loop", norm(m), roots)
                    if key not in seen:
                        seen.add(key)
                        out.append(("loop", m, j, wm, wj, roots))
                    continue
                if self._undone(f, m, j):
                    continue
                try:
                    mids, jids = q.nodes_for(f, m), q.nodes_for(f, j)
                except Exception:
                    continue
                hit = False
                for a in mids:
                    for b in jids:
                        if a != b and cfg.path_exists(a, b, labels=("N", "T", "F")):
                            lp = enclosing_for(f, j)
                            if lp is not None and enclosing_for(f, m) is lp and \
                                    self._loop_invariant_validation(f, j, lp, roots) and \
                                    not cfg.path_exists(a, b, avoid=set(q.nodes_for(f, lp)), labels=("N", "T", "F")):
                                continue
                            hit = True
                if hit:
                    key = ("path", norm(j), roots)
                    if key not in seen:
                        seen.add(key)
                        out.append(("path", m, j, wm, wj, roots))
        return out

    def _undone(self, f, m, j):
        for t in q.tries(f):
            body_nodes = {x for s_ in t.body for x in ast.walk(s_)}
            if m in body_nodes:
                for h in t.handlers:
                    if any(isinstance(c, ast.Call) and call_name(c) in ("del_item", "del_spec") for c in ast.walk(h)):
                        return True
        return False


def _summ(ctx):
    if "c11_summ" not in ctx.memo:
        ctx.memo["c11_summ"] = Summaries(ctx)
    return ctx.memo["c11_summ"]


def _local_problems(S, f, depth=0, seen=None):
    """Flatten: yield (function, problem) for f and for everything reached through 'via'."""
    seen = seen if seen is not None else set()
    if f.qual in seen or depth > 8:
        return
    seen.add(f.qual)
    for d in S.bad[f.qual]:
        if d[0] == "via":
            yield from _local_problems(S, d[2], depth + 1, seen)
        else:
            yield f, d


@rule("C11.R1", "C11", "DOM", "no edit operation mutates a definition before it can still reject", min_instances=30)
def r1(ctx, R):
    """For every operation of the table: no path `definitional mutation -> rejection`
    (callees summarised to a fixpoint over precisely resolved call edges; undo handlers,
    'must not happen' arms, pre-checked rejections and loop-invariant re-validation
    recognised).  A violation is keyed by the rejection that can fire too late."""
    S = _summ(ctx)
    R.slot("operations", OPERATIONS)
    R.slot("excluded_composites", EXCLUDED)
    R.slot("infeasible_pairs", {"%s: %s" % k: v for k, v in INFEASIBLE.items()})
    R.slot("summary_sizes", {"functions": len(S.funcs), "may_mutate": sum(S.mut.values()),
                             "may_reject": sum(1 for v in S.roots.values() if v)})
    groups = {}
    for spec in OPERATIONS:
        f = ctx.func(spec)
        M, J, wm, wj, jr = S.effects(f)
        R.inst("%s: %d mutation site(s), %d rejection site(s)" % (spec, len(M), len(J)))
        for lf, d in _local_problems(S, f):
            kind, m, j, wm2, wj2, roots = d
            for root in sorted(roots) or [(lf.qual, norm(j))]:
                g = groups.setdefault(root, {"ops": [], "where": (lf, m, j, kind, wm2, wj2)})
                g["ops"].append(spec)
    for (rq, rtxt), g in sorted(groups.items()):
        rf, m, j, kind, wm2, wj2 = g["where"]
        rootf = ctx.repo.funcs.get(rq)
        how = ("in a loop over several objects: one iteration mutates, a later one may reject" if kind == "loop"
               else "after %s" % wm2.get(m, norm(m)))
        R.bad(rootf or rf, None,
              "this rejection can fire after definitions were already changed (%s: %s %s); operations affected: %s"
              % (rf.short, wj2.get(j, norm(j)), how, ", ".join(sorted(set(g["ops"])))),
              stmt=rtxt[:120])


@rule("C11.R2", "C11", "FLOW", "every name given to a space, cells or model passed the name sanitiser", min_instances=7)
def r2(ctx, R):
    """new_cells (via CellsImpl.__init__), rename_cells, new_space, rename_space, ModelImpl
    .__init__, ModelImpl.rename, UserSpaceImpl.set_attr: the name reaching the naming sink is a
    parameter that passed `is_valid_name(name)` (true branch / raise on false), an auto-namer
    result, or a name copied from an existing object; is_valid_name itself refuses non-
    identifiers, keywords and leading underscores."""
    sinks = [
        ("SpaceManager.rename_cells", "on_rename", "name"),
        ("SpaceManager.rename_space", "on_rename", "name"),
        ("ModelImpl.rename", None, "name"),
        ("ModelImpl.__init__", "__init__", "name"),
        ("UserSpaceImpl.set_attr", "new_ref", "name"),
    ]
    for spec, sink, var in sinks:
        f = ctx.func(spec)
        if sink is None:
            targets = [st for st, t in q.attr_writes(f, attr="name", recv="self")]
        else:
            targets = q.calls(f, name=sink)
        R.inst("%s: `%s` reaches `%s` only after is_valid_name" % (spec, var, sink or "self.name ="))
        if not targets:
            R.bad(f, f.node, "naming sink not found", stmt=str(sink))
            continue
        for t in targets:
            r = q.run_abstract(f, lambda e: "F" if norm(e) == "is_valid_name(%s)" % var else None)
            autonamed = any(isinstance(v, ast.Call) and call_name(v) == "get_next" for v in assigned_value(f, var))
            if any(i in r for i in q.nodes_for(f, t)):
                # reachable with is_valid_name false: acceptable only on the auto-name path
                if autonamed and any(nn.kind == "test" and norm(nn.ast) == "not name" or nn.kind == "test" and norm(nn.ast) == "name"
                                     for nn in f.cfg.nodes):
                    r2_ = q.run_abstract(f, lambda e: {"is_valid_name(%s)" % var: "F", "name": "T", "not name": "F"}.get(norm(e)))
                    if not any(i in r2_ for i in q.nodes_for(f, t)):
                        continue
                R.bad(f, t, "a name that is not a valid identifier (or starts with an underscore) can become the name of a "
                            "%s" % ("model" if "Model" in spec else "space or cells"))
    ci = ctx.func("CellsImpl.__init__")
    at_site = new_cells_validates_name(ctx)
    R.inst("a cells is constructed only with a valid or auto-generated name (new_cells resolves it; else CellsImpl.__init__ must)")
    R.slot("cells name resolved in", "SpaceManager.new_cells" if at_site else "CellsImpl.__init__")
    vals = sorted(norm(v) for v in assigned_value(ci, "name"))
    if at_site:
        R.note("CellsImpl.__init__'s naming fallback is unreachable with an invalid name: new_cells draws the name first")
    elif vals != ["Formula(formula).name", "base.name", "space.cellsnamer.get_next(space.namespace)",
                "space.cellsnamer.get_next(space.namespace)"]:
        R.bad(ci, ci.node, "cells name sources changed: %s" % vals, stmt="name =")
    else:
        # with every is_valid_name test false and no base, the name must be auto-generated
        for st in [n_ for n_ in walk_local(ci.node) if isinstance(n_, ast.Assign) and norm(n_.targets[0]) == "name"
                   and norm(n_.value) == "Formula(formula).name"]:
            pass
        impl = [c for c in q.calls(ci, name="__init__") if call_recv(c) == "Impl"][0]
        r = q.run_abstract(ci, lambda e: {"base": "F", "is_valid_name(name)": "F"}.get(norm(e)))
        # on that path the last assignment to name must be an auto-name: check no path from the
        # `Formula(formula).name` assignment to Impl.__init__ avoiding an auto-name when invalid
        auto = [n_ for n_ in walk_local(ci.node) if isinstance(n_, ast.Assign) and norm(n_.targets[0]) == "name"
                and "get_next" in norm(n_.value)]
        cfg = ci.cfg
        reach = cfg.reach([cfg.entry], avoid=set(q.nodes_for(ci, auto)),
                          avoid_edges={(n_.id, "T") for n_ in cfg.nodes if n_.kind == "test" and norm(n_.ast) in ("base", "is_valid_name(name)")})
        if any(i in reach for i in q.nodes_for(ci, impl)):
            R.bad(ci, impl, "an invalid cells name can reach Impl.__init__ without being replaced by an auto-name")
    ns = ctx.func("SpaceUpdater.new_space")
    R.inst("SpaceUpdater.new_space: explicit name validated (unless generated with a prefix)")
    rs = [r_ for r_ in q.raises(ns, "ValueError") if ("is_valid_name(name)", "F") in q.guards_of(ns, r_)]
    mk = q.calls(ns, name="UserSpaceImpl")
    if not rs or not mk or q.path_between(ns, mk[0], rs[0]):
        R.bad(ns, ns.node, "space name is not validated before the space is created", stmt="is_valid_name")
    iv = ctx.repo.module("modelx.core.util").funcs["is_valid_name"]
    R.inst("is_valid_name: str, identifier, not a keyword, no leading underscore")
    txt = " ".join(ast.unparse(iv.node).split())
    pat = ctx.repo.module("modelx.core.util").consts.get("_system_defined_names")
    okp = pat is not None and "^_.*" in norm(pat)
    if not ("isinstance(word, str)" in txt and "word.isidentifier()" in txt and "keyword.iskeyword(word)" in txt
            and "_system_defined_names.match(word)" in txt and okp):
        R.bad(iv, iv.node, "is_valid_name no longer refuses non-identifiers, keywords and underscore names", stmt="is_valid_name body")
    else:
        trues = [r_ for r_ in q.returns(iv) if isinstance(r_.value, ast.Constant) and r_.value.value is True]
        good = {"isinstance(word, str)": "T", "word.isidentifier()": "T", "keyword.iskeyword(word)": "F",
                "_system_defined_names.match(word)": "F"}
        for r_ in trues:
            for flip in good:
                val = dict(good)
                val[flip] = "T" if good[flip] == "F" else "F"
                if q.reached_under(iv, r_, lambda e: val.get(norm(e))):
                    R.bad(iv, r_, "is_valid_name returns True without all three tests")
                    break
        if not any(q.reached_under(iv, r_, lambda e: good.get(norm(e))) for r_ in trues):
            R.bad(iv, iv.node, "is_valid_name never accepts a name", stmt="return True")
    us = ctx.func("UserSpaceImpl.set_attr")
    R.inst("UserSpaceImpl.set_attr validates the reference name first")
    rs = q.raises(us, "ValueError")
    if not rs or ("is_valid_name(name)", "F") not in q.guards_of(us, rs[0]):
        R.bad(us, us.node, "attribute assignment accepts invalid names", stmt="is_valid_name")


@rule("C11.R3", "C11", "DOM", "graph edits work on a copy, are validated first and committed last", min_instances=10)
def r3(ctx, R):
    """SpaceUpdater.__init__ copies the manager's graph; new_space / add_bases test acyclicity
    and get_mro of the node and of every descendant before the first instruction; every
    operation calls _update_manager() after execute(), on the normal path only; the live graph
    is not written before that; ModelImpl.updater builds a fresh updater per operation."""
    ui = ctx.func("SpaceUpdater.__init__")
    R.inst("SpaceUpdater.__init__: self._graph = manager._graph.copy()")
    ws = [st for st, t in q.attr_writes(ui, attr="_graph", recv="self")]
    if not ws or norm(ws[-1].value) != "self.manager._graph.copy()":
        R.bad(ui, ui.node, "the updater edits the live inheritance graph", stmt="_graph = copy")
    um = ctx.func("SpaceUpdater._update_manager")
    R.inst("_update_manager installs the working copy")
    ws = [st for st, t in q.attr_writes(um, attr="_graph")]
    if not ws or norm(ws[0]) != "self.manager._graph = self._graph":
        R.bad(um, um.node, "commit does not install the working graph", stmt="manager._graph =")
    for spec in ("SpaceUpdater.new_space", "SpaceUpdater.add_bases", "SpaceUpdater.remove_bases", "SpaceUpdater.del_defined_space"):
        f = ctx.func(spec)
        ex = q.calls(f, name="execute", recv_endswith="_instructions")
        cm = q.calls(f, name="_update_manager", recv="self")
        R.inst("%s: commit after execute, on the normal path only" % spec)
        if not ex or not cm or not q.dominated(f, ex, cm[0]):
            R.bad(f, f.node, "graph is committed before/without executing the instructions", stmt="commit order")
        else:
            for cid in q.nodes_for(f, cm[0]):
                # not reachable through an exceptional edge of execute
                xs = [b for e in q.nodes_for(f, ex[0]) for b, l in f.cfg.succ[e] if l == "X"]
                r = f.cfg.reach(xs) if xs else set()
                if cid in r:
                    R.bad(f, cm[0], "graph is committed although an instruction failed")
        R.inst("%s: the live graph is only read" % spec)
        for c in q.calls(f, name=("add_edge", "add_node", "remove_edge", "remove_node", "remove_nodes_from", "add_edges_from")):
            if "self.manager._graph" in norm(c.func.value):
                R.bad(f, c, "the live inheritance graph is edited before the operation is known to succeed")
    for spec in ("SpaceUpdater.new_space", "SpaceUpdater.add_bases", "SpaceUpdater.remove_bases"):
        f = ctx.func(spec)
        ex = q.calls(f, name="execute", recv_endswith="_instructions")
        acyc = [r_ for r_ in q.raises(f, "ValueError") if any("is_directed_acyclic_graph" in t and l == "F" for t, l in q.guards_of(f, r_))]
        mro = q.calls(f, name="get_mro")
        R.inst("%s: acyclicity and the MRO of the node and every descendant are tested before the first instruction" % spec)
        if not acyc and spec != "SpaceUpdater.remove_bases":      # removing an edge cannot close a cycle
            R.bad(f, f.node, "cyclic inheritance is not refused", stmt="is_directed_acyclic_graph")
        in_desc = [c for c in mro if enclosing_for(f, c) is not None and "descendants" in q.rnorm(f, enclosing_for(f, c).iter)]
        covers_self = any("{node}" in q.rnorm(f, enclosing_for(f, c).iter).replace("space.idstr", "node") or "[node]" in
                          q.rnorm(f, enclosing_for(f, c).iter).replace("space.idstr", "node") for c in in_desc) or len(mro) >= 2
        if not in_desc or not covers_self:
            R.bad(f, f.node, "linearisation of the space and of its descendants is not tested before members are re-derived: "
                             "a rejected base edit leaves a half re-derived space", stmt="get_mro(descendants)")
        for c in in_desc:
            if enclosing_for(f, c) is not None and [q.anorm(f, a) for a in c.args] != [norm(enclosing_for(f, c).target)]:
                R.bad(f, c, "the MRO test does not visit each descendant")
            if "self._graph" != q.anorm(f, c.func.value):
                R.bad(f, c, "the MRO is tested on the live graph, not on the edited copy")
        for x in acyc + mro:
            if ex and q.path_between(f, ex[0], x):
                R.bad(f, x, "hierarchy is validated after members were already re-derived")
        if spec == "SpaceUpdater.new_space":
            mk = q.calls(f, name="UserSpaceImpl")
            for x in acyc + mro:
                if mk and q.path_between(f, mk[0], x):
                    R.bad(f, x, "the space is created before the hierarchy is validated")
    dd = ctx.func("SpaceUpdater.del_defined_space")
    R.inst("del_defined_space: the MRO of every remaining descendant is tested on a graph without the deleted nodes, first")
    mro_ = q.calls(dd, name="get_mro")
    okd = False
    for c in mro_:
        g_ = q.origin(dd, c.func.value)
        lp_ = enclosing_for(dd, c)
        rm_ = [x for x in q.calls(dd, name="remove_nodes_from") if q.anorm(dd, x.func.value) == norm(c.func.value)
               and [norm(a) for a in x.args] == ["nodes_removed"]]
        muts = q.calls(dd, name=("del_ref", "execute"))
        if isinstance(g_, ast.Call) and call_name(g_) == "copy" and norm(g_.func.value) == "self._graph" and lp_ is not None \
                and rm_ and q.dominated(dd, rm_, c) and not any(q.path_between(dd, m_, c) for m_ in muts):
            okd = True
    if not okd:
        R.bad(dd, dd.node, "deleting a space that is a base is not tested for the linearisation of the spaces deriving from it: "
                           "the TypeError comes after the space was removed from its parent, the graph still holds it",
              stmt="trial MRO before deletion")
    ns = ctx.func("SpaceUpdater.new_space")
    R.inst("new_space: a failing instruction removes the half-built space from its container and re-raises")
    tr = [t for t in q.tries(ns) if any(isinstance(c, ast.Call) and call_name(c) == "execute" for s in t.body for c in ast.walk(s))]
    okh = False
    for t in tr:
        for h in t.handlers:
            if q.is_catch_all(h) and isinstance(h.body[-1], ast.Raise) and any(
                    isinstance(c, ast.Call) and call_name(c) == "del_item" and [norm(a) for a in c.args] == ["name"] for c in ast.walk(h)):
                okh = True
    if not okh:
        R.bad(ns, ns.node, "a space whose derivation failed stays in its parent", stmt="except: container.del_item(name)")
    for spec in ("SpaceUpdater.add_bases", "SpaceUpdater.remove_bases", "SpaceUpdater.del_defined_space"):
        f = ctx.func(spec)
        rs = [r_ for r_ in q.raises(f, "ValueError") if any("not in self.manager._graph" in t and l == "T" for t, l in q.guards_of(f, r_))]
        R.inst("%s: unknown spaces are refused before the working graph is touched" % spec)
        edits = q.calls(f, name=("add_edge", "remove_edge", "remove_nodes_from"))
        if not rs or any(q.path_between(f, e, rs[0]) for e in edits):
            R.bad(f, f.node, "unknown space is not refused first", stmt="Space not found")
    for spec, op in (("UserSpace.add_bases", "add_bases"), ("UserSpace.remove_bases", "remove_bases")):
        f = ctx.func(spec)
        cs = q.calls(f, name=op)
        R.inst("%s: all bases go into one updater transaction" % spec)
        if len(cs) != 1 or enclosing_for(f, cs[0]) is not None or \
                [norm(a) for a in cs[0].args] != ["self._impl", "get_impl_list(bases)"] or \
                norm(cs[0].func.value) != "self._impl.model.updater":
            R.bad(f, f.node, "a multi-base call is split into several transactions: when a later base is rejected the "
                             "earlier ones are already committed", stmt="one updater.%s(self._impl, get_impl_list(bases))" % op)
    up = ctx.func("ModelImpl.updater")
    R.inst("ModelImpl.updater: fresh SpaceUpdater per access")
    rr = q.returns(up)
    if len(rr) != 1 or norm(rr[0].value) != "SpaceUpdater(self.spmgr)":
        R.bad(up, up.node, "updater state can leak between operations", stmt="return SpaceUpdater(self.spmgr)")
    il = ctx.func("InstructionList.execute")
    R.inst("InstructionList.execute clears the list after running")
    if not q.calls(il, name="clear", recv="self"):
        R.bad(il, il.node, "instructions of a finished operation stay queued", stmt="self.clear()")
