"""C04 - write/read round trip (directory and zip) reproduces the model."""
import ast
import re

from ..framework import rule
from ..astutil import parents_map, ancestors, dotted, call_name, call_recv, norm, walk_local, unparse, ancestors
from .. import q
from .common import assigned_value, kw, arg, enclosing_for

META = {
    "explanation": (
        "Decides the structural clauses behind C04: (R1) the value tags and tuple arities the "
        "encoders emit are the ones the decoders accept and index, both selectors end in an "
        "unconditional default; (R2) persistent-id tags and tuple lengths of both pickler pairs "
        "are handled by the matching unpickler; (R3) every attribute key the encoders assign in "
        "the pseudo-module selects a parser branch that creates an instruction for it - the two "
        "sibling cells parsers are interpreted abstractly for every key CellsEncoder can emit; "
        "(R4) free text (doc) reaches the emitted source only through an escaping function; "
        "(R5) the writer half never assigns to or calls a mutating member of the model; (R6) "
        "every instruction the parsers can create is executed by a phase of _read_model_inner, "
        "in an order that respects the data it needs; (R7) directory and zip output share one "
        "code path through the ziputil layer."),
    "not_decided": [
        "equality of values after reading (runtime values, pickle fidelity)",
        "normalisation of formula source text",
    ],
    "assumptions": ["serializer_6 is the format written by this version (HIGHEST_VERSION)"],
}

S6 = "serializer_6"


def _emitted_tuples(fi):
    """[(tag, arity, node)] for python-tuple source literals returned by an encode()."""
    out = []
    for r_ in q.returns(fi):
        for n in ast.walk(r_.value):
            if isinstance(n, ast.Constant) and isinstance(n.value, str) and n.value.lstrip().startswith('("'):
                src = n.value.replace("%s", "0")
                try:
                    t = ast.parse(src, mode="eval").body
                except SyntaxError:
                    continue
                if isinstance(t, ast.Tuple) and t.elts and isinstance(t.elts[0], ast.Constant):
                    out.append((t.elts[0].value, len(t.elts), n))
    return out


def _selector_classes(ctx, spec):
    ci = ctx.cls(spec)
    lst = ci.consts.get("classes")
    if not isinstance(lst, ast.List):
        return []
    return [ctx.repo.resolve_class(ci.module, norm(e)) for e in lst.elts]


@rule("C04.R1", "C04", "TABLE", "value tags and tuple arities agree between encoders and decoders", min_instances=8)
def r1(ctx, R):
    """Tags emitted by EncoderSelector.classes == DECTYPEs accepted by DecoderSelector.classes
    (compat tags extra on the reader); indices read by a decoder exist in the written tuple;
    both selectors end with an unconditional default."""
    encs = _selector_classes(ctx, S6 + ":EncoderSelector")
    decs = _selector_classes(ctx, S6 + ":DecoderSelector")
    R.need(encs and decs and all(encs) and all(decs), "selector class lists not resolvable")
    written = {}
    for e in encs:
        f = e.lookup("encode")
        for tag, ar, n in _emitted_tuples(f):
            written.setdefault(tag, set()).add(ar)
    accepted = {}
    for d in decs:
        t = d.lookup_const("DECTYPE")
        if isinstance(t, ast.Constant) and t.value:
            accepted[t.value] = d
        t2 = d.consts.get("DECTYPE_COMPAT")
        if isinstance(t2, ast.Constant):
            accepted.setdefault(t2.value, d)
    R.slot("written_tags", {k: sorted(v) for k, v in written.items()})
    R.slot("accepted_tags", sorted(accepted))
    R.need(len(written) >= 4, "expected >=4 written tags, found %s" % sorted(written))
    for tag, ars in sorted(written.items()):
        R.inst("tag %r (arity %s) has a decoder" % (tag, sorted(ars)))
        if tag not in accepted:
            R.bad(S6, None, "encoder writes tag %r that no decoder accepts: the reference is read back as a plain tuple" % tag,
                  stmt="tag " + tag)
            continue
        d = accepted[tag]
        maxidx = 0
        for m in d.methods.values():
            for c in q.calls(m, name="elm"):
                if c.args and isinstance(c.args[0], ast.Constant):
                    maxidx = max(maxidx, c.args[0].value)
            for n in walk_local(m.node):
                if isinstance(n, ast.Subscript) and norm(n.value) == "self.node.elts" and isinstance(n.slice, ast.Constant):
                    maxidx = max(maxidx, n.slice.value)
        R.inst("decoder of %r reads index <= %d < written arity" % (tag, maxidx))
        if maxidx >= min(ars):
            R.bad(d.methods.get("decode") or d.lookup("decode"), None,
                  "decoder of %r reads element %d but the encoder writes only %d" % (tag, maxidx, min(ars)),
                  stmt="arity " + tag)
    rp = ctx.func(S6 + ":RefAssignParser.get_instruction")
    R.inst("RefAssignParser reads elm(2) only when size() >= 3")
    for c in q.calls(rp, name="elm"):
        if c.args and isinstance(c.args[0], ast.Constant) and c.args[0].value == 2:
            if ("decoder.size() < 3", "F") not in q.guards_of(rp, c):
                R.bad(rp, c, "third tuple element read without checking the size")
    for sel, lst, what in ((S6 + ":EncoderSelector", encs, "encoder"), (S6 + ":DecoderSelector", decs, "decoder")):
        last = lst[-1]
        cond = last.lookup("condition")
        R.inst("%s ends with an unconditional default (%s)" % (sel, last.name))
        rr = q.returns(cond) if cond else []
        if not rr or not all(isinstance(r_.value, ast.Constant) and r_.value.value is True for r_ in rr):
            R.bad(cond or sel, None, "last %s is not an unconditional default: some value has no %s" % (what, what),
                  stmt="default " + what)
    bs = ctx.func(S6 + ":BaseSelector.select")
    R.inst("BaseSelector.select: first class whose condition holds, in list order")
    rr = q.returns(bs)
    if len(rr) != 1 or "for e in cls.classes if e.condition(*args)" not in norm(rr[0].value):
        R.bad(bs, bs.node, "selection is not first-match over cls.classes", stmt="select")
    le = ctx.func(S6 + ":LiteralEncoder.encode")
    R.inst("LiteralEncoder: bool/None via str, others via json.dumps")
    if not any(isinstance(r_.value, ast.Call) and norm(r_.value.func) == "json.dumps" for r_ in q.returns(le)):
        R.bad(le, le.node, "literals are not written through json.dumps", stmt="json.dumps")
    ld = ctx.func(S6 + ":LiteralDecoder.decode")
    if not any(isinstance(r_.value, ast.Call) and norm(r_.value.func) == "json.loads" for r_ in q.returns(ld)):
        R.bad(ld, ld.node, "literals are not read through json.loads", stmt="json.loads")


def _pid_tags(fi):
    out = []
    for r_ in q.returns(fi):
        v = r_.value
        if isinstance(v, ast.Tuple) and v.elts and isinstance(v.elts[0], ast.Constant) and isinstance(v.elts[0].value, str):
            out.append((v.elts[0].value, len(v.elts), r_))
    return out


def _pid_handled(fi):
    """tag -> set of accepted tuple lengths (None: any)"""
    out = {}
    cfg = fi.cfg
    for n in cfg.nodes:
        if n.kind != "test" or not isinstance(n.ast, ast.Compare) or norm(n.ast.left) != "pid[0]":
            continue
        c = n.ast.comparators[0]
        tags = [c.value] if isinstance(c, ast.Constant) else [e.value for e in getattr(c, "elts", []) if isinstance(e, ast.Constant)]
        # tuple unpackings / len tests reachable on the true branch before any other pid[0] test
        lens = set()
        tsucc = [b for b, l in cfg.succ[n.id] if l == "T"]
        others = {m.id for m in cfg.nodes if m.kind == "test" and m is not n and isinstance(m.ast, ast.Compare)
                  and norm(m.ast.left) == "pid[0]"}
        for i in cfg.reach(tsucc, avoid=others):
            a = cfg.nodes[i].ast
            if isinstance(a, ast.Assign) and norm(a.value) == "pid" and isinstance(a.targets[0], ast.Tuple):
                lens.add(len(a.targets[0].elts))
        for t in tags:
            out.setdefault(t, set()).update(lens or {None})
    return out


@rule("C04.R2", "C04", "TABLE", "persistent-id tags and lengths are handled by the matching unpickler", min_instances=9, also=("C19",))
def r2(ctx, R):
    """(IOSpecPickler, IOSpecUnpickler) and (ModelPickler, ModelUnpickler): every tag returned
    by persistent_id is tested in persistent_load and the tuple length is among the lengths the
    loader unpacks; the loader ends with an UnpicklingError for unknown tags."""
    for pk, up in (("IOSpecPickler", "IOSpecUnpickler"), ("ModelPickler", "ModelUnpickler")):
        w = ctx.func("custom_pickle:%s.persistent_id" % pk)
        r = ctx.func("custom_pickle:%s.persistent_load" % up)
        tags = _pid_tags(w)
        handled = _pid_handled(r)
        R.slot(pk, {"written": sorted({(t, l) for t, l, _ in tags}), "handled": {k: sorted(map(str, v)) for k, v in handled.items()}})
        R.must(tags, "%s.persistent_id returns no tagged tuples" % pk)
        for tag, ln, node in tags:
            R.inst("%s tag %r/%d handled by %s" % (pk, tag, ln, up))
            if tag not in handled:
                R.bad(w, node, "persistent id %r is written but %s.persistent_load does not handle it" % (tag, up))
            elif None not in handled[tag] and ln not in handled[tag]:
                R.bad(w, node, "persistent id %r is written with %d elements, loader unpacks %s" % (tag, ln, sorted(handled[tag])))
        R.inst("%s.persistent_load rejects unknown tags" % up)
        if not q.raises(r, "UnpicklingError"):
            R.bad(r, r.node, "unknown persistent ids are not rejected", stmt="raise UnpicklingError")
        R.inst("%s.persistent_id returns None for ordinary objects" % pk)
        if not any(isinstance(x.value, ast.Constant) and x.value.value is None for x in q.returns(w)):
            R.bad(w, w.node, "ordinary objects are not pickled by value", stmt="return None")
    ir = ctx.func("Interface.__reduce__")
    R.inst("Interface.__reduce__: objects of the model are reduced to id tuples while serializing")
    if not q.calls(ir, name="_reduce_serialize_3") or not any("serializing" in t and l == "T" for t, l in
                                                              q.guards_of(ir, q.calls(ir, name="_reduce_serialize_3")[0])):
        R.bad(ir, ir.node, "object references are not reduced to id tuples under serialization", stmt="_reduce_serialize_3")
    rs = ctx.func("Interface._reduce_serialize_3")
    R.inst("_reduce_serialize_3: own model's name replaced by '' and resolved by _get_object_from_idtuple_reduce")
    if "_get_object_from_idtuple_reduce" not in " ".join(norm(x.value) for x in q.returns(rs)):
        R.bad(rs, rs.node, "id tuples are not resolved on load", stmt="return")
    # siblings: both places that blank the own model's name decide "own model" by comparing the model being
    # written (an interface) with the model *interface* of the object - an Impl on one side is never identical
    mp = ctx.func("custom_pickle:ModelPickler.persistent_id")
    WRITTEN = ("self.writer.model", "self._impl.system.serializing.model")
    for f_, what in ((rs, "an object reference"), (mp, "a node value")):
        R.inst("%s: own-model test compares the written model with the object's model interface" % f_.short)
        okc = False
        for x in walk_local(f_.node):
            if isinstance(x, ast.Compare) and len(x.ops) == 1 and isinstance(x.ops[0], (ast.Is, ast.Eq)):
                sides = [q.anorm(f_, x.left), q.anorm(f_, x.comparators[0])]
                w_ = [s_ for s_ in sides if s_ in WRITTEN]
                o_ = [s_ for s_ in sides if s_ not in WRITTEN]
                if len(w_) == 1 and len(o_) == 1 and o_[0].endswith(".model"):
                    recv = o_[0][: -len(".model")]
                    last = recv.split(".")[-1]
                    impl_level = last.startswith("_impl") or last in ("impl",) or recv.endswith("]") and "_impl[" in recv.split(".")[-1]
                    if impl_level:
                        R.bad(f_, x, "the written model (an interface) is compared with a ModelImpl: never identical, so %s of "
                                     "the written model keeps the model's name and is resolved in whatever model has that "
                                     "name when the files are read under another name" % what)
                    else:
                        # and the blanked tuple is built under the true outcome
                        for n_ in walk_local(f_.node):
                            if isinstance(n_, ast.Assign) and norm(n_.targets[0]) == "idtuple":
                                for v, g in q.arms(f_, n_.value):
                                    if norm(v).startswith("('',) + ") and ((norm(x), "T") in g or (norm(x), "T") in q.guards_of(f_, n_)):
                                        okc = True
        if not okc:
            R.bad(f_, f_.node, "the own model's name is not replaced by '' for %s of the written model" % what,
                  stmt="own-model test in %s" % f_.short)
    gr = ctx.func("System._get_object_from_idtuple_reduce")
    if not any("(self.serializing.model.name,) + idtuple[1:]" == q.anorm(gr, v) for v in assigned_value(gr, "idtuple")):
        R.bad(gr, gr.node, "relative id tuple is not resolved against the model being read", stmt="model =")


def _emitted_keys(fi):
    keys = set()
    for n in walk_local(fi.node):
        if isinstance(n, ast.Constant) and isinstance(n.value, str):
            m = re.match(r"^(_[a-z_]+) = ", n.value)
            if m:
                keys.add(m.group(1))
    return keys


@rule("C04.R3", "C04", "CASE", "every attribute key written has a parser branch that creates its instruction",
      min_instances=10)
def r3(ctx, R):
    """Keys assigned by ModelEncoder / SpaceEncoder select a branch of RenameParser /
    AttrAssignParser; keys trailing a cells definition (CellsEncoder) are interpreted through
    CellsFuncDefParser and LambdaAssignParser: each must create set_property(<key without _>)."""
    mk = _emitted_keys(ctx.func(S6 + ":ModelEncoder.encode"))
    sk = _emitted_keys(ctx.func(S6 + ":SpaceEncoder.encode"))
    ck = _emitted_keys(ctx.func(S6 + ":CellsEncoder.encode"))
    R.slot("keys", {"model": sorted(mk), "space": sorted(sk), "cells": sorted(ck)})
    R.need(mk and sk and ck, "encoder keys not found: %s %s %s" % (mk, sk, ck))
    ap = ctx.func(S6 + ":AttrAssignParser.get_instruction")
    handled = set()
    for n in ap.cfg.nodes:
        if n.kind == "test" and isinstance(n.ast, ast.Compare) and norm(n.ast.left) == "self.target":
            c = n.ast.comparators[0]
            handled |= {c.value} if isinstance(c, ast.Constant) else {e.value for e in c.elts}
    rn = ctx.func(S6 + ":RenameParser.condition")
    if any(isinstance(n, ast.Constant) and n.value == "_name" for n in walk_local(rn.node)):
        handled.add("_name")
    for k in sorted(mk | sk):
        R.inst("key %s has a parser branch" % k)
        if k not in handled:
            R.bad(ap, ap.node, "key %s is written but no parser handles it (RuntimeError on read)" % k, stmt="key " + k)
    # what each branch creates
    want = {"_formula": "set_formula", "_bases": "add_bases", "_allow_none": "set_property"}
    for k, meth in want.items():
        R.inst("AttrAssignParser[%s] creates %s" % (k, meth))

        def oc(e, k=k):
            t = norm(e)
            if isinstance(e, ast.Compare) and norm(e.left) == "self.target":
                c = e.comparators[0]
                vals = {c.value} if isinstance(c, ast.Constant) else {x.value for x in c.elts}
                return "T" if k in vals else "F"
            if t == "self.section == 'DEFAULT'":
                return "T"
            return None
        reached = q.run_abstract(ap, oc)
        ok = False
        for c in q.calls(ap, name="from_method"):
            m = kw(c, "method")
            mv = m.value if isinstance(m, ast.Constant) else (assigned_value(ap, m.id)[0].value if isinstance(m, ast.Name) and assigned_value(ap, m.id) and isinstance(assigned_value(ap, m.id)[0], ast.Constant) else None)
            if mv == meth and any(i in reached for i in q.nodes_for(ap, c)):
                ok = True
        if not ok:
            R.bad(ap, ap.node, "key %s does not produce a %s instruction" % (k, meth), stmt="branch " + k)
    R.inst("AttrAssignParser[_spaces] records the child list for parse_dir")
    if not any(t.attr == "result" for st, t in q.attr_writes(ap, attr="result")):
        R.bad(ap, ap.node, "_spaces is not recorded", stmt="reader.result")
    # cells-trailing keys through both sibling parsers
    for pname in ("CellsFuncDefParser", "LambdaAssignParser"):
        fi = ctx.func("%s:%s.get_instruction" % (S6, pname))
        for k in sorted(ck):
            R.inst("%s[%s] creates set_property(%r)" % (pname, k, k[1:]))

            def oc(e, k=k):
                t = norm(e)
                if isinstance(e, ast.Compare) and "first_token.string" in norm(e.left):
                    c = e.comparators[0]
                    vals = {c.value} if isinstance(c, ast.Constant) else {x.value for x in getattr(c, "elts", [])}
                    return "T" if k in vals else "F"
                if "type == token.STRING" in t:
                    return "F"
                if t.startswith("isinstance(next_node, ast.Assign)"):
                    return "T"
                return None
            reached = q.run_abstract(fi, oc)
            ok = False
            for c in q.calls(fi, name="from_method"):
                m = kw(c, "method")
                if not (isinstance(m, ast.Constant) and m.value == "set_property"):
                    continue
                if not any(i in reached for i in q.nodes_for(fi, c)):
                    continue
                a = kw(c, "args")
                first = a.elts[0] if isinstance(a, ast.Tuple) and a.elts else None
                if isinstance(first, ast.Constant) and first.value == k[1:]:
                    ok = True
                elif isinstance(first, ast.Name):
                    vs = assigned_value(fi, first.id)
                    if vs and norm(vs[0]).replace("(", "").replace(")", "") == "next_node.first_token.string[1:]":
                        ok = True
            if not ok:
                R.bad(fi, fi.node, "%s admits %s after a cells definition but creates no set_property(%r): the flag "
                                   "is lost on read" % (pname, k, k[1:]), stmt="%s[%s]" % (pname, k))
        R.inst("%s appends load_pickledata for the cells' inputs" % pname)
        if not any(isinstance(n, ast.Attribute) and n.attr == "load_pickledata" for n in walk_local(fi.node)):
            R.bad(fi, fi.node, "input values of the cells are not restored", stmt="load_pickledata")
    se = ctx.func(S6 + ":SpaceEncoder.__init__")
    R.inst("SpaceEncoder: every cells that can hold assigned values gets an encoder (which pickles them)")
    mk = q.calls(se, name="CellsEncoder")
    if not mk:
        R.bad(se, se.node, "no cells encoder is created", stmt="CellsEncoder(")
    else:
        g = q.guards_of(se, mk[0])
        restr = sorted(t for t, l in g if "_is_defined" in t or "is_derived" in t)
        if restr:
            # set_value_from_key accepts an assignment on a derived cells and leaves it derived: the values of
            # the cells that get no encoder must be written some other way (the _dynamic_inputs file)
            pd = ctx.func(S6 + ":SpaceEncoder.pickle_dynamic_inputs")
            okd = False
            for c in [x for x in ast.walk(pd.node) if isinstance(x, ast.Call) and call_name(x) == "_pickle_inputs"]:
                lp = next((a for a in ancestors(parents_map(pd.node), c) if isinstance(a, ast.For)), None)
                src = q.origin(pd, lp.iter) if lp is not None else None
                if isinstance(src, (ast.ListComp, ast.GeneratorExp)) and len(src.generators) == 1 and \
                        norm(src.generators[0].iter) in ("self.space.cells.values()", "self.space._cells.values()"):
                    conds = " and ".join(norm(i) for i in src.generators[0].ifs)
                    v = norm(src.generators[0].target)
                    if ("not %s._is_defined()" % v) in conds and not any(
                            isinstance(x, ast.Call) and call_name(x) not in ("_is_defined",) for i in src.generators[0].ifs for x in ast.walk(i)) \
                            and len(c.args) >= 2 and norm(c.args[1]) == norm(lp.target) and norm(src.elt) == v:
                        # and the file is written when there are such cells
                        wf = [x for x in ast.walk(pd.node) if isinstance(x, ast.Call) and call_name(x) == "write_file_utf8"]
                        lname = norm(lp.iter)
                        if wf and q.reached_under(pd, wf[0], lambda e: "T" if norm(e) == lname else "F"):
                            okd = True
            if not okd:
                R.bad(se, mk[0], "only defined cells are written (%s): values assigned on a derived cells "
                                 "(C = new_space(bases=A); C.foo[1] = 5) are silently dropped by write/read" % ", ".join(restr),
                      stmt="derived cells inputs not written")
    pds = ctx.func(S6 + ":SpaceEncoder._pickle_dynamic_space")
    R.inst("_pickle_dynamic_space: inputs of the cells, then recursion into child spaces AND nested ItemSpaces")
    its = set()
    for lp_ in [x for x in walk_local(pds.node) if isinstance(x, ast.For)]:
        calls_ = [c for b in lp_.body for c in ast.walk(b) if isinstance(c, ast.Call)]
        if any(call_name(c) == "_pickle_dynamic_space" and len(c.args) >= 2 and norm(c.args[1]) == norm(lp_.target) for c in calls_):
            its.add(q.rnorm(pds, lp_.iter))
        if any(call_name(c) == "_pickle_inputs" and len(c.args) >= 2 and norm(c.args[1]) == norm(lp_.target) for c in calls_):
            its.add("cells:" + q.rnorm(pds, lp_.iter))
    covers_children = any(t in its for t in ("space.named_spaces.values()", "space._named_spaces.values()"))
    covers_items = any(t in its for t in ("space._named_itemspaces.values()", "space.named_itemspaces.values()"))
    if any("all_spaces" in t for t in its):
        covers_children = covers_items = True
    if not (covers_children and covers_items and "cells:space.cells.values()" in its):
        R.bad(pds, pds.node, "inputs in an ItemSpace nested inside a dynamic space (Base[1].C[3].foo[2] = 7) are not written: "
                             "the recursion covers %s" % sorted(its), stmt="_pickle_dynamic_space recursion")
    ce = ctx.func(S6 + ":CellsEncoder.encode")
    R.inst("CellsEncoder emits _is_cached exactly when the flag is False and _allow_none when it is set")
    g = [n for n in ce.cfg.nodes if n.kind == "test"]
    tx = [norm(n.ast) for n in g]
    emits = [c for c in q.calls(ce, name="append") if c.args and isinstance(c.args[0], ast.Constant)
             and c.args[0].value == "_is_cached = False"]
    okf = False
    for c in emits:
        gs = q.guards_of(ce, c)
        if {("self.target.is_cached == False", "T"), ("self.target.is_cached", "F"), ("self.target.is_cached is False", "T"),
                ("self.target.is_cached != True", "T")} & set(gs.resolved()) and len(gs) == 1:
            okf = True
    if not okf:
        R.bad(ce, ce.node, "uncached flag is not written", stmt="_is_cached")
    if "self.target.allow_none is not None" not in tx:
        R.bad(ce, ce.node, "allow_none is not written when set", stmt="_allow_none")


@rule("C04.R4", "C04", "FLOW", "free text reaches the emitted source only through an escaping function", min_instances=4)
def r4(ctx, R):
    """Every read of `.doc` in an encode() of serializer_6 is a test or the argument of
    quote_doc / repr / json.dumps; quote_doc escapes backslashes, then the delimiter, then a
    trailing quote."""
    n = 0
    mod = ctx.repo.module(S6)
    for f in mod.all_funcs:
        if f.name != "encode":
            continue
        for x in walk_local(f.node):
            if isinstance(x, ast.Attribute) and x.attr == "doc" and isinstance(x.ctx, ast.Load):
                n += 1
                par = f.pm.get(x)
                R.inst("%s: use of %s" % (f.short, norm(x)))
                ok = False
                if isinstance(par, ast.Call) and x in par.args and (dotted(par.func) or "").split(".")[-1] in (
                        "quote_doc", "repr", "dumps", "encode"):
                    ok = True
                if isinstance(par, (ast.Compare, ast.If, ast.BoolOp, ast.UnaryOp)):
                    ok = True
                if not ok:
                    R.bad(f, x, "documentation text is interpolated into the source unescaped: a doc with quotes or "
                                "backslashes makes the written model unreadable")
    R.need(n >= 4, "expected >=4 uses of .doc in encoders, found %d" % n)
    qd = mod.funcs.get("quote_doc")
    R.inst("quote_doc: backslashes, then the closing delimiter, then a trailing quote")
    if qd is None:
        R.bad(S6, None, "no escaping helper for documentation text", stmt="quote_doc")
    else:
        reps = [c for c in ast.walk(qd.node) if isinstance(c, ast.Call) and call_name(c) == "replace"]
        pairs = [(c.args[0].value, c.args[1].value) for c in reps if len(c.args) == 2
                 and all(isinstance(a, ast.Constant) for a in c.args)]
        ok = ("\\", "\\\\") in pairs and ('"""', '\\"\\"\\"') in pairs
        # order: backslash replacement is the innermost (applied first)
        if ok:
            inner = [c for c in reps if c.args[0].value == "\\"][0]
            outer = [c for c in reps if c.args[0].value == '"""'][0]
            ok = any(x is inner for x in ast.walk(outer.func)) or (
                inner.lineno, inner.col_offset) < (outer.lineno, outer.col_offset) and not any(x is outer for x in ast.walk(inner.func))
        trailing = bool(q.calls(qd, name="endswith")) or any(
            isinstance(n_, ast.Compare) and isinstance(n_.left, ast.Subscript) and "-1" in norm(n_.left.slice)
            and isinstance(n_.comparators[0], ast.Constant) and n_.comparators[0].value == '"' for n_ in walk_local(qd.node))
        if not ok or not trailing:
            R.bad(qd, qd.node, "quote_doc does not escape backslashes first, then the delimiter, then a trailing quote",
                  stmt="quote_doc body")
    sc = ctx.func(S6 + ":SourceStructure.construct")
    R.inst("SourceStructure.construct: a divider line inside a string literal (doc text) starts no section")
    div = [n_ for n_ in sc.cfg.nodes if n_.kind == "test" and "SECTION_DIVIDER" in norm(n_.ast)]
    if not div:
        R.bad(sc, sc.node, "section divider test not found", stmt="SECTION_DIVIDER")
    else:
        # (anchor: SourceStructure._string_lines computes the excluded lines)
        # the divider test is reached only for lines that are not inside a string token: some membership
        # test on a set built from tokenize STRING tokens must fail first
        excl = []
        for n_ in sc.cfg.nodes:
            if n_.kind == "test" and isinstance(n_.ast, ast.Compare) and len(n_.ast.ops) == 1 \
                    and isinstance(n_.ast.ops[0], (ast.In, ast.NotIn)):
                src = q.origin(sc, n_.ast.comparators[0])
                if isinstance(src, ast.Call):
                    cs = ctx.cg.site_of(src)
                    tg = [t for t, p in cs.targets] if cs is not None else []
                    if any("STRING" in ast.unparse(t.node) and "generate_tokens" in ast.unparse(t.node) for t in tg):
                        excl.append((n_, "F" if isinstance(n_.ast.ops[0], ast.In) else "T"))
        okx = False
        for n_, lab in excl:
            if all(sc.cfg.depends_on(d.id, n_.id, lab) for d in div):
                okx = True
        if not okx:
            R.bad(sc, div[0].ast, "the section scan looks at raw source lines, also those inside doc strings: a doc that "
                                  "contains the divider followed by '# References' makes the written model unreadable")
    dp = ctx.func(S6 + ":DocstringParser.get_instruction")
    R.inst("DocstringParser sets doc from the parsed string value (not the raw source text)")
    c = q.calls(dp, name="from_method")
    if not c or "self.node.value.s" not in norm(kw(c[0], "args") or ast.Constant(0)) and "self.node.value.value" not in norm(kw(c[0], "args") or ast.Constant(0)):
        R.bad(dp, dp.node, "doc is not restored from the evaluated string", stmt="args")


def _mutating_members(ctx):
    """Names of interface members that edit the model (computed from the source)."""
    out = set()
    for cname in ("Model", "UserSpace", "BaseSpace", "Cells", "EditableParent", "IOSpecOperation", "Interface"):
        ci = ctx.cls(cname)
        for key, f in ci.methods.items():
            if f.kind in ("setter", "deleter"):
                out.add(f.name)
                continue
            if f.kind == "getter":
                continue
            for c in q.calls(f):
                r = call_recv(c) or ""
                nm = call_name(c) or ""
                if r.startswith("self._impl") and not nm.startswith(("get_", "is_", "has_", "to_", "repr", "find_",
                                                                    "predecessors", "successors", "tuplize")) \
                        and nm not in ("get_value", "get_itemspace", "single_value", "doc", "call"):
                    if nm.startswith(("set_", "del_", "new_", "clear", "rename", "add_", "remove_", "copy", "sort", "reload",
                                      "update", "close", "import", "change")) or r.endswith(("spmgr", "updater", "refmgr")):
                        out.add(f.name)
    out -= {"__call__", "__getitem__", "node", "preds", "succs", "precedents", "to_frame", "to_series"}
    return out


@rule("C04.R5", "C04", "WMC", "the writer is effect-free on the model", min_instances=30)
def r5(ctx, R):
    """In ModelWriter, the *Encoder classes and output_input: no attribute assignment or
    deletion on an object rooted in the model, no call of a mutating interface member (set
    computed from the interface classes); serialize.write_model only assigns model.path."""
    M = _mutating_members(ctx)
    R.slot("mutating_members", sorted(M))
    R.need(len(M) >= 25, "mutating member set too small (%d)" % len(M))
    mod = ctx.repo.module(S6)
    roots = ("self.model", "self.space", "self.target", "self.parent", "space", "cells", "s", "subspace", "obj", "ref",
             "self.writer.model", "model")
    n = 0
    for f in mod.all_funcs:
        cn = f.cls.name if f.cls is not None else (f.outer.cls.name if f.outer is not None and f.outer.cls is not None else None)
        if not ((cn and (cn.endswith("Encoder") or cn == "ModelWriter")) or f.name == "output_input"):
            continue
        n += 1
        R.inst("writer function %s" % f.short)
        for st, t in q.attr_writes(f):
            r = dotted(t.value) or ""
            if r == "self" or r.startswith("self.writer") and t.attr in ("pickledata", "input_log"):
                continue
            if r in ("self.system", "self.system.iomanager") and t.attr == "serializing":
                continue
            R.bad(f, st, "the writer assigns to an attribute of `%s`: writing alters the model" % r)
        for c in q.calls(f):
            nm = call_name(c)
            r = call_recv(c) or ""
            if nm in M and (r.startswith(roots) or r.split(".")[0] in ("space", "cells", "s", "subspace", "obj", "ref", "model")):
                R.bad(f, c, "the writer calls the mutating member `%s` on the model" % nm)
            if nm == "Instruction" and c.args and isinstance(c.args[0], ast.Attribute) and c.args[0].attr in M:
                R.bad(f, c, "the writer schedules the mutating member `%s`" % c.args[0].attr)
    R.need(n >= 25, "expected >=25 writer functions, found %d" % n)
    wm = ctx.repo.module("modelx.serialize").funcs["write_model"]
    R.inst("serialize.write_model: the only model write is `model.path = root`")
    for st, t in q.attr_writes(wm):
        if norm(t) != "model.path" or norm(st.value) != "root":
            R.bad(wm, st, "write_model alters the model beyond its path")
    oi = mod.funcs["output_input"]
    R.inst("output_input evaluates only the given (input) key")
    for c in q.calls(oi):
        if norm(c.func) == "obj" and [norm(a) for a in c.args] != ["*key"]:
            R.bad(oi, c, "input log evaluates something other than the logged key")
    for spec in (S6 + ":CellsEncoder.pickle_value", S6 + ":SpaceEncoder._pickle_inputs"):
        f = ctx.func(spec)
        R.inst("%s pickles only keys in input_keys" % spec)
        if not any("input_keys" in norm(n_.iter) for n_ in walk_local(f.node) if isinstance(n_, ast.For)) and \
                not any("in self.target._impl.input_keys" in norm(n_.ast) for n_ in f.cfg.nodes if n_.kind == "test"):
            R.bad(f, f.node, "computed values are written as inputs (or inputs are skipped)", stmt="input_keys")


@rule("C04.R6", "C04", "TABLE", "every instruction the parsers create is executed by a reader phase, in a sound order",
      min_instances=10)
def r6(ctx, R):
    """Names of instruction functions creatable by the parsers (method= literals, Instruction(
    self.<m>), the doc property's fset) are a subset of the lists handed to
    execute_selected_methods in _read_model_inner (plus AT_PARSE parsers); pickled data is read
    before the phases that consume it; members exist before bases are added, references are
    restored after bases."""
    mod = ctx.repo.module(S6)
    created = {}
    at_parse = set()
    for ci in mod.classes.values():
        if not ci.name.endswith("Parser") and ci.name != "ModelReader":
            continue
        atp = norm(ci.consts.get("default_priority") or ast.Constant(0)) == "PriorityID.AT_PARSE"
        for f in ci.methods.values():
            for c in q.calls(f, name="from_method"):
                m = kw(c, "method")
                vals = []
                if isinstance(m, ast.Constant):
                    vals = [m.value]
                elif isinstance(m, ast.Name):
                    vals = [v.value for v in assigned_value(f, m.id) if isinstance(v, ast.Constant)]
                elif isinstance(m, ast.Attribute) and norm(m) == "self.METHOD":
                    for sub in ctx.repo.subclasses_incl(ci):
                        v = sub.lookup_const("METHOD")
                        if isinstance(v, ast.Constant) and v.value:
                            vals.append(v.value)
                for v in vals:
                    if v == "fset":
                        v = "doc"   # property object of Interface.doc: fset.__name__ == 'doc'
                    created.setdefault(v, []).append(f.short)
                    if atp:
                        at_parse.add(v)
            for c in q.calls(f, name="Instruction"):
                if c.args and isinstance(c.args[0], ast.Attribute) and norm(c.args[0].value) == "self":
                    created.setdefault(c.args[0].attr, []).append(f.short)
    ri = ctx.func(S6 + ":ModelReader._read_model_inner")
    phases = []
    for c in q.calls(ri, name="execute_selected_methods"):
        a0 = q.origin(ri, c.args[0]) if c.args else None
        if isinstance(a0, (ast.List, ast.Tuple)):
            phases.append(([e.value for e in a0.elts if isinstance(e, ast.Constant)], c))
    allph = {m for p, _ in phases for m in p}
    R.slot("created", {k: sorted(set(v)) for k, v in created.items()})
    R.slot("phases", [p for p, _ in phases])
    R.need(len(created) >= 8, "expected >=8 instruction names, found %s" % sorted(created))
    for name in sorted(created):
        R.inst("instruction %s is executed by a phase" % name)
        if name not in allph and name not in at_parse:
            R.bad(ri, ri.node, "instructions named %r (created by %s) are never executed: silently dropped on read"
                  % (name, sorted(set(created[name]))), stmt="phase " + name)

    def phase_of(name):
        for i, (p, c) in enumerate(phases):
            if name in p:
                return i, c
        return None, None
    rp = q.calls(ri, name="read_pickledata")
    for name in ("load_pickledata", "__setattr__", "set_ref", "_set_dynamic_inputs"):
        i, c = phase_of(name)
        R.inst("pickled data is read before phase %s" % name)
        if c is not None and (not rp or not q.dominated(ri, rp, c)):
            R.bad(ri, c, "phase %s runs before the pickled data was read" % name)
    # unpickling resolves modelx objects inside pickled values by name: every object that can be
    # named - defined cells and the members derived through add_bases - must exist by then
    for name in ("new_cells", "add_bases"):
        i, c = phase_of(name)
        R.inst("phase %s runs before the pickled data is read" % name)
        if c is not None and rp and not q.dominated(ri, [c], rp[0]):
            R.bad(ri, rp[0], "pickled data is read before phase %s: a pickled value or input key that holds a derived "
                             "cells/space cannot be resolved and the read fails" % name, stmt="read_pickledata before " + name)
    order = [("new_cells", "add_bases"), ("set_formula", "add_bases"), ("add_bases", "__setattr__"),
             ("add_bases", "set_ref"), ("new_cells", "load_pickledata"), ("__setattr__", "_set_dynamic_inputs"),
             ("add_bases", "_set_dynamic_inputs"), ("new_cells", "set_doc")]
    for a, b in order:
        ia, ca = phase_of(a)
        ib, cb = phase_of(b)
        R.inst("phase order: %s before/with %s" % (a, b))
        if ia is None or ib is None:
            continue
        if ia > ib or (ia != ib and not q.dominated(ri, [ca], cb)):
            R.bad(ri, cb, "phase %s runs before %s" % (b, a))
    pd = ctx.func(S6 + ":ModelReader.parse_dir")
    R.inst("parse_dir: every child listed in _spaces is created and parsed recursively")
    lp = [n for n in walk_local(pd.node) if isinstance(n, ast.For) and norm(n.iter) == "spaces"]
    if not lp or not any(isinstance(c, ast.Call) and call_name(c) == "new_space" for c in ast.walk(lp[0])) \
            or not any(isinstance(c, ast.Call) and call_name(c) == "parse_dir" for c in ast.walk(lp[0])):
        R.bad(pd, pd.node, "child spaces are not all restored", stmt="for name in spaces")
    ps = ctx.func(S6 + ":ModelReader.parse_source")
    R.inst("parse_source: AT_PARSE instructions run immediately, others are queued")
    if not q.calls(ps, name="execute") or not q.calls(ps, name="append", recv="self.instructions"):
        R.bad(ps, ps.node, "instructions are neither executed nor queued", stmt="parse_source")


@rule("C04.R7", "C04", "WMC", "directory and zip output share one code path through ziputil", min_instances=8)
def r7(ctx, R):
    """`is_zip` is read only in ModelWriter.__init__/write_model and ziputil.make_root; the writer
    classes create files only through ziputil.write_* / copy_file / archive_dir / write_ios;
    ziputil.write_file dispatches on find_zip_parent(path) for both kinds."""
    n = 0
    for f in list(ctx.repo.module(S6).all_funcs) + list(ctx.repo.module("modelx.serialize.ziputil").all_funcs):
        for x in walk_local(f.node):
            if (isinstance(x, ast.Attribute) and x.attr == "is_zip" or isinstance(x, ast.Name) and x.id == "is_zip") \
                    and isinstance(x.ctx, ast.Load):
                n += 1
                R.inst("is_zip read in %s" % f.short)
                if f.short not in ("ModelWriter.__init__", "ModelWriter.write_model", "make_root"):
                    R.bad(f, x, "output kind is consulted outside write_model/make_root: zip and directory may receive "
                                "different files")
    R.need(n >= 4, "expected >=4 reads of is_zip")
    for f in ctx.repo.module(S6).all_funcs:
        cn = f.cls.name if f.cls is not None else (f.outer.cls.name if f.outer is not None and f.outer.cls is not None else None)
        if not (cn and (cn.endswith("Encoder") or cn == "ModelWriter")):
            continue
        for c in q.calls(f):
            nm = call_name(c)
            r = call_recv(c) or ""
            if nm == "open" or (nm in ("write_text", "write_bytes", "mkdir", "touch") and r != "self.work_dir") \
                    or r in ("zipfile",) or nm == "ZipFile":
                R.inst("%s: direct file operation %s" % (f.short, norm(c)[:40]))
                R.bad(f, c, "the writer touches the file system directly instead of going through ziputil")
    for nm in ("exists", "is_dir", "is_valid_archive_path"):
        f = ctx.func("ziputil:" + nm)
        R.inst("ziputil.%s: archive members are matched as whole path components (with '/')" % nm)
        for c in q.calls(f, name="startswith"):
            a = c.args[0] if c.args else None
            if a is None or '"/"' not in ast.unparse(a).replace("'", '"'):
                R.bad(f, c, "archive names are matched by plain string prefix: 'S/_data/rate' matches 'S/_data/rate_adj', "
                            "so a missing member is reported as existing and reading fails")
        for x in walk_local(f.node):
            if isinstance(x, ast.Subscript) and isinstance(x.slice, ast.Slice) and x.slice.upper is not None \
                    and isinstance(x.value, ast.Name) and x.value.id == "n":
                if "+ 1" not in norm(x.slice.upper) and '"/"' not in ast.unparse(x.slice.upper).replace("'", '"'):
                    R.bad(f, x, "archive name prefix is cut without room for the '/' separator")
        if nm in ("exists", "is_dir") and not any(isinstance(x, ast.BinOp) and '"/"' in ast.unparse(x).replace("'", '"')
                                                   for x in walk_local(f.node)):
            R.bad(f, f.node, "directory test inside an archive does not use the '/' separator", stmt="archive + '/'")
    wf = ctx.func("ziputil:write_file")
    R.inst("ziputil.write_file: archive member when inside a zip, plain file otherwise, same callback")
    cbs = [c for c in q.calls(wf) if norm(c.func) == "callback"]
    if len(cbs) != 2 or not q.calls(wf, name="find_zip_parent"):
        R.bad(wf, wf.node, "write_file does not serve both kinds of destination with the same callback", stmt="callback")
    for nm in ("write_str", "write_str_utf8", "write_file_utf8"):
        f = ctx.func("ziputil:" + nm)
        R.inst("ziputil.%s delegates to write_file" % nm)
        if not any(call_name(c) in ("write_file", "write_str") for c in q.calls(f)):
            R.bad(f, f.node, "%s has its own writing code" % nm, stmt="delegate")
    ad = ctx.func("ziputil:archive_dir")
    R.inst("ziputil.archive_dir copies every file of the work dir under the same relative path")
    if not q.calls(ad, name="copy_file") or not q.calls(ad, name="relative_to"):
        R.bad(ad, ad.node, "IO files are not archived under their relative paths", stmt="archive_dir")
    wi = ctx.func("IOManager.write_ios")
    R.inst("IOManager.write_ios writes every IO of the model (and external ones)")
    lp = [n_ for n_ in walk_local(wi.node) if isinstance(n_, ast.For)]
    if not lp or "self.ios.items()" not in norm(lp[0].iter) or not q.calls(wi, name="write_io"):
        R.bad(wi, wi.node, "not every IO is written on save", stmt="write_ios")
