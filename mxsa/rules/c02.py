"""C02 - no stale value survives any edit."""
import ast
import re

from ..framework import rule
from ..astutil import dotted, call_name, call_recv, norm, walk_local, unparse, ancestors
from .. import q
from .common import source_changed_guards, assigned_value, kw, arg, enclosing_for
from . import c08, c09, c07   # C08.R3, C09.R2 and C07.R2 (instances discarded on member edits) are listed for C02 too

META = {
    "explanation": (
        "Decides the structural clauses behind C02: (R1) every write of a definitional field "
        "(formula, cached flag, names, a reference's value, parameter formula, model path) is "
        "dominated in the same function by the invalidation primitive of that object kind applied "
        "to the same object, and a formula write is followed by a refresh of the bound function; "
        "(R2) member containers are mutated only through the four notifying mutators (two "
        "value-preserving idioms are recognised) and the notification chain is intact; (R3) the "
        "observer wiring set up by the constructors reaches an invalidation in every "
        "on_namespace_change override; (R4) every operation that changes what <space>.<name> "
        "resolves to among references clears the attribute referrers of the binding visible "
        "before the change; (R5) reads of references by attribute path are recorded with the "
        "same frame index at every producer; plus C08.R3 (hit/miss edge symmetry) and C09.R2 "
        "(object-level invalidation)."),
    "not_decided": [
        "equality with a model that replayed only the edits (runtime values)",
        "that by-name invalidation of the whole space is sufficient beyond the wiring facts",
    ],
    "assumptions": [],
}

CONTAINER_ATTRS = ("_cells", "cells", "_own_refs", "own_refs", "_named_spaces", "named_spaces", "spaces",
                   "_named_itemspaces", "named_itemspaces", "_global_refs", "global_refs", "_sys_refs",
                   "_dynbase_refs", "_arguments", "_property_refs", "property_refs")
MUTATORS = ("set_item", "del_item", "rename_item", "sort_items")
RAW = ("pop", "update", "clear", "setdefault", "popitem", "__setitem__", "__delitem__")


def _dominating_call(fi, stmt, name, argtext=None, recv_endswith=None):
    cs = [c for c in q.calls(fi, name=name) if (argtext is None or (c.args and norm(c.args[0]) == argtext))
          and (recv_endswith is None or (call_recv(c) or "").endswith(recv_endswith))]
    return bool(cs) and q.dominated(fi, cs, stmt)


@rule("C02.R1", "C02", "DOM", "every definitional write is dominated by the invalidation of that object", min_instances=14, also=("C01", "C12", "C17",))
def r1(ctx, R):
    """cells.formula / is_cached / name -> clear_obj(self); space.name -> clear_obj(self) and
    clear_all_cells; reference.interface -> clear_attr_referrers(self); parameter formula ->
    del_all_itemspaces (or no formula yet); model.path -> clear_attr_referrers(path ref); a
    formula write is followed by a refresh of altfunc."""
    n = 0
    # cells
    for spec in ("CellsImpl.on_inherit", "UserCellsImpl.on_rename", "UserCellsImpl.on_set_property"):
        fi = ctx.func(spec)
        for st, t in q.attr_writes(fi, attr=("formula", "is_cached", "name", "allow_none"), recv="self"):
            n += 1
            R.inst("%s: `%s` after clear_obj(self)" % (spec, norm(st)[:50]))
            if not _dominating_call(fi, st, "clear_obj", "self"):
                R.bad(fi, st, "definition of the cells changes without first discarding its values and their dependents")
        for st, t in q.attr_writes(fi, attr="formula", recv="self"):
            R.inst("%s: formula write followed by a refresh of the bound function" % spec)
            ref = [s2 for s2, t2 in q.attr_writes(fi, attr="altfunc", recv="self")] + q.calls(fi, name="notify", recv="self.altfunc")
            if not ref or not q.followed(fi, st, ref, exits=[fi.cfg.exit]):
                R.bad(fi, st, "formula replaced but the function that is executed is not rebuilt")
    coi = ctx.func("CellsImpl.on_inherit")
    n += 1
    R.inst("CellsImpl.on_inherit: formula taken from the first base and bound function refreshed on every path "
           "(reload() rewrites the shared Formula object in place: identity says nothing)")
    fw_ = [st for st, t in q.attr_writes(coi, attr="formula", recv="self")]
    nt_ = q.calls(coi, name="notify", recv="self.altfunc")
    if not fw_ or not nt_ or not coi.cfg.must_pass(q.nodes_for(coi, fw_), coi.cfg.exit, labels=("N", "T", "F")) \
            or not coi.cfg.must_pass(q.nodes_for(coi, nt_), coi.cfg.exit, labels=("N", "T", "F")):
        R.bad(coi, coi.node, "a derived cells can keep the function compiled from its base's previous source",
              stmt="on_inherit refreshes unconditionally")
    rl = ctx.func("UserCellsImpl.reload")
    n += 1
    R.inst("UserCellsImpl.reload: changed source -> clear_obj(self) and altfunc.notify()")
    co = q.calls(rl, name="clear_obj")
    nt = q.calls(rl, name="notify", recv="self.altfunc")
    chg = source_changed_guards(rl)
    if not co or not any((t, "T") in q.guards_of(rl, co[0]) for t in chg):
        R.bad(rl, rl.node, "reloaded cells keeps its values", stmt="clear_obj")
    if not nt or set(q.guards_of(rl, nt[0])) - set(q.guards_of(rl, co[0] if co else rl.node)) or \
            not all(l == "T" and t in chg for t, l in q.guards_of(rl, nt[0])):
        R.bad(rl, rl.node, "reload() updates formula.source but the cells keeps executing the old function",
              stmt="altfunc.notify()")
    cac = ctx.func("BaseSpaceImpl.clear_all_cells")
    n += 1
    R.inst("clear_all_cells(recursive=True) reaches every level: the recursive call forwards all three flags")
    rc = [c for c in q.calls(cac, name="clear_all_cells") if (call_recv(c) or "") != "self"]
    sig = [a.arg for a in cac.node.args.args[1:]]

    def _fw(c, name):
        i = sig.index(name) if name in sig else -1
        v = kw(c, name) or (c.args[i] if 0 <= i < len(c.args) else None)
        return v is not None and (norm(v) == name or (name == "recursive" and isinstance(v, ast.Constant) and v.value is True))
    if not rc or not all(_fw(rc[0], p_) for p_ in ("clear_input", "recursive", "del_items")) or \
            ("recursive", "T") not in q.guards_of(cac, rc[0]):
        R.bad(cac, rc[0] if rc else cac.node, "a recursive clear stops one level down: cells two or more levels below a renamed "
              "space keep their values", stmt="recursive clear")
    R.inst("UserCellsImpl.reload: the cells derived from the reloaded one are re-derived (they share the formula object)")
    us_ = [c for c in q.calls(rl, name="update_subs") if [norm(a) for a in c.args] == ["self.parent"]]
    if not us_ or not any((t, "T") in q.guards_of(rl, us_[0]) for t in chg) or (co and q.path_between(rl, us_[0], co[0])):
        R.bad(rl, rl.node, "cells derived in sub spaces keep their values and the old function after a reload",
              stmt="update_subs after reload")
    # space rename
    sr = ctx.func("UserSpaceImpl.on_rename")
    for st, t in q.attr_writes(sr, attr="name", recv="self"):
        n += 1
        R.inst("UserSpaceImpl.on_rename: name write after clear_obj(self) and clear_all_cells")
        if not _dominating_call(sr, st, "clear_obj", "self") or not _dominating_call(sr, st, "clear_all_cells"):
            R.bad(sr, st, "space renamed without discarding the values of its cells and ItemSpaces")
        cc = q.calls(sr, name="clear_all_cells")
        if cc and not all(norm(kw(cc[0], k) or ast.Constant(0)) == "True" for k in ("clear_input", "recursive", "del_items")):
            R.bad(sr, cc[0], "renaming does not clear recursively including inputs and ItemSpaces")
    n += 1
    R.inst("UserSpaceImpl.on_rename: formulas that read a reference of the renamed tree by path are cleared")
    car = q.calls(sr, name="clear_attr_referrers")
    okt = False
    for c in car:
        lp_ = enclosing_for(sr, c)
        if lp_ is None or not c.args or norm(c.args[0]) != norm(lp_.target):
            continue
        it_ = norm(lp_.iter)
        m_ = re.fullmatch(r"(\w+)\.own_refs\.values\(\)", it_)
        if not m_:
            continue
        # the walk covers the space and all its descendants: a worklist seeded with self, extended by named_spaces
        sv_ = m_.group(1)
        wl = [n_ for n_ in walk_local(sr.node) if isinstance(n_, ast.Call) and call_name(n_) in ("extend", "append")
              and "named_spaces" in norm(n_) and sv_ in norm(n_)]
        seeds = [v for v in assigned_value(sr, norm(wl[0].func.value)) ] if wl else []
        if wl and any(norm(v) in ("[self]", "deque([self])", "[self, ]") for v in seeds):
            okt = True
    nw = [st for st, t in q.attr_writes(sr, attr="name", recv="self")]
    if not okt or (nw and car and q.path_between(sr, nw[0], car[0])):
        R.bad(sr, sr.node, "cells elsewhere that read a reference of the renamed space (or of a space below it) by attribute "
                           "path keep their values: the path no longer exists, or denotes another object", stmt="rename clears referrers")
    # references
    ri = ctx.func("ReferenceImpl.on_inherit")
    ws = [st for st, t in q.attr_writes(ri, attr="interface", recv="self")]
    R.need(len(ws) >= 3, "ReferenceImpl.on_inherit: expected >=3 writes of interface")
    for st in ws:
        n += 1
        R.inst("ReferenceImpl.on_inherit: `%s` after clear_attr_referrers(self)" % norm(st)[:50])
        if not _dominating_call(ri, st, "clear_attr_referrers", "self"):
            R.bad(ri, st, "a derived reference is re-bound without clearing the values that read it by attribute path "
                          "(clear_obj is a no-op for a reference)")
    R.inst("ReferenceImpl.on_inherit: container.notify() after re-binding (name readers)")
    nt = q.calls(ri, name="notify", recv="self.container")
    if not nt or not ri.cfg.must_pass(q.nodes_for(ri, nt), ri.cfg.exit, labels=("N", "T", "F")):
        R.bad(ri, ri.node, "re-bound reference does not notify its container: formulas reading it by name stay stale",
              stmt="container.notify()")
    # parameter formula
    sf = ctx.func("ItemSpaceParent.set_formula")
    df = ctx.func("ItemSpaceParent.del_formula")
    for st, t in q.attr_writes(sf, attr="formula", recv="self"):
        n += 1
        R.inst("ItemSpaceParent.set_formula: `%s` only when no formula is set (any more)" % norm(st)[:40])
        # on every path to the write either the formula was None or del_formula() ran
        cfg = sf.cfg
        dels = set(q.nodes_for(sf, q.calls(sf, name="del_formula", recv="self"))) if q.calls(sf, name="del_formula", recv="self") else set()
        none_tests = [n_.id for n_ in cfg.nodes if n_.kind == "test" and norm(n_.ast) in ("self.formula is None", "self.formula is not None")]
        cut = set()
        for t in none_tests:
            cut.add((t, "T" if norm(cfg.nodes[t].ast) == "self.formula is None" else "F"))
        r = cfg.reach([cfg.entry], avoid=dels, avoid_edges=cut)
        if not none_tests or any(i in r for i in q.nodes_for(sf, st)):
            R.bad(sf, st, "parameter formula replaced while ItemSpaces built from the old one exist")
        ref = [s2 for s2, t2 in q.attr_writes(sf, attr="altfunc", recv="self")]
        if not ref or not q.followed(sf, st, ref, exits=[sf.cfg.exit]):
            R.bad(sf, st, "parameter formula set but its bound function is not rebuilt")
    for st, t in q.attr_writes(df, attr="formula", recv="self"):
        n += 1
        R.inst("ItemSpaceParent.del_formula: del_all_itemspaces() before the formula goes")
        if not _dominating_call(df, st, "del_all_itemspaces"):
            R.bad(df, st, "parameter formula deleted while its ItemSpaces stay")
    R.inst("ItemSpaceParent.set_formula: the new formula is built before the old one is removed")
    mk = q.calls(sf, name="ParamFunc")
    dl = q.calls(sf, name="del_formula", recv="self")
    for m_ in mk:
        for d_ in dl:
            if q.path_between(sf, d_, m_):
                R.bad(sf, m_, "the old parameter formula is deleted before the new one is known to be valid")
    R.inst("ItemSpaceParent.set_formula: replacing goes through del_formula")
    if not q.calls(sf, name="del_formula", recv="self"):
        R.bad(sf, sf.node, "an existing parameter formula is overwritten in place", stmt="del_formula")
    # model path
    ps = ctx.func("Model.path.setter")
    for st, t in q.attr_writes(ps, attr="path"):
        n += 1
        R.inst("Model.path setter: clear_attr_referrers(property_refs['path']) first")
        cs = [c for c in q.calls(ps, name="clear_attr_referrers") if "property_refs['path']" in norm(c)]
        if not cs or not q.dominated(ps, cs, st):
            R.bad(ps, st, "model path changed without clearing the values that read it")
    # who else writes definitional fields?
    allowed = {"formula": {"CellsImpl.__init__", "CellsImpl.on_inherit", "UserCellsImpl.on_rename",
                           "UserCellsImpl.on_set_property", "ItemSpaceParent.__init__", "ItemSpaceParent.set_formula",
                           "ItemSpaceParent.del_formula"},
               "is_cached": {"CellsImpl.__init__", "CellsImpl.on_inherit", "UserCellsImpl.on_set_property",
                             "BaseSpaceImpl.__init__", "CellsMaker.__init__"},
               "interface": {"Impl.__init__", "ReferenceImpl.on_inherit", "DynamicSpaceImpl.__init__"}}
    for f in ctx.repo.all_funcs(modules=["modelx.core"]):
        if f.cls is None or f.cls.name in ("Formula", "NullFormula", "ParamFunc", "ModuleSource"):
            continue
        for st, t in q.attr_writes(f, attr=tuple(allowed)):
            if dotted(t.value) not in ("self", "cells", "ref", "space"):
                continue
            R.inst("writer of .%s: %s" % (t.attr, f.short))
            if f.short not in allowed[t.attr]:
                R.bad(f, st, "definitional field `%s` is written in a function that is not known to invalidate" % t.attr)
    R.need(n >= 14, "expected >=14 definitional write sites, found %d" % n)


@rule("C02.R2", "C02", "WMC", "member containers are mutated only through the notifying mutators", min_instances=20)
def r2(ctx, R):
    """A LazyEvalDict held in a space/model field is mutated only by set_item / del_item /
    rename_item / sort_items; recognised value-preserving idioms: `d[k] = d.pop(k)` (reorder)
    and `d[k] = C(...)` where constructor C registers itself through set_item.  Each mutator
    ends in self.notify(); LazyEval.notify clears is_fresh and notifies the observers;
    BaseNamespaceReferrer.notify calls on_namespace_change."""
    n_mut = n_raw = 0
    self_registering = set()
    for cname in ("CellsImpl", "ReferenceImpl"):
        init = ctx.func(cname + ".__init__")
        si = q.calls(init, name="set_item")
        if si:
            self_registering |= {c.name for c in ctx.repo.subclasses_incl(ctx.cls(cname))}
    R.slot("self_registering_constructors", sorted(self_registering))
    for f in ctx.repo.all_funcs(modules=["modelx.core"]):
        if f.cls is not None and f.cls.name in ("LazyEvalDict", "ImplDict", "CustomChainMap", "LazyEvalChainMap",
                                                "BaseView", "SelectedView", "InterfaceMixin", "ReorderableDict"):
            continue
        aliases = {}
        for nm in ("selfdict",):
            vs = assigned_value(f, nm)
            if vs and norm(vs[0]) == "getattr(self, attr)":
                aliases[nm] = "container"

        def is_container(expr):
            d = dotted(expr)
            if d is None:
                return False
            return ("." in d and d.split(".")[-1] in CONTAINER_ATTRS) or d in aliases
        for c in q.calls(f):
            nm = call_name(c)
            if isinstance(c.func, ast.Attribute) and is_container(c.func.value):
                if nm in MUTATORS:
                    n_mut += 1
                    R.inst("%s: %s.%s" % (f.short, dotted(c.func.value), nm))
                elif nm in RAW:
                    # `d[k] = d.pop(k)` is handled below with its assignment
                    par = f.pm.get(c)
                    if nm == "pop" and isinstance(par, ast.Assign) and isinstance(par.targets[0], ast.Subscript) \
                            and dotted(par.targets[0].value) == dotted(c.func.value) \
                            and norm(par.targets[0].slice) == norm(c.args[0]):
                        continue
                    n_raw += 1
                    R.inst("%s: raw %s.%s" % (f.short, dotted(c.func.value), nm))
                    R.bad(f, c, "member container mutated with `%s` (no notification): namespace and dependants stay as they were" % nm)
        for st, t in q.subscript_writes(f):
            if not is_container(t.value):
                continue
            n_raw += 1
            R.inst("%s: raw `%s`" % (f.short, norm(st)[:60]))
            ok = False
            if isinstance(st, ast.Assign):
                v = st.value
                if isinstance(v, ast.Call) and call_name(v) == "pop" and dotted(v.func.value) == dotted(t.value) \
                        and norm(v.args[0]) == norm(t.slice):
                    ok = True       # reorder idiom
                if isinstance(v, ast.Call) and call_name(v) in self_registering:
                    ok = True       # constructor registers through set_item
            if not ok:
                R.bad(f, st, "member container written without notification")
    R.slot("mutator_call_sites", n_mut)
    R.slot("raw_sites", n_raw)
    R.need(n_mut >= 15, "expected >=15 mutator call sites, found %d" % n_mut)
    for m in MUTATORS:
        fi = ctx.func("LazyEvalDict." + m)
        nt = q.calls(fi, name="notify", recv="self")
        R.inst("LazyEvalDict.%s ends in self.notify()" % m)
        if not nt or not fi.cfg.must_pass(q.nodes_for(fi, nt), fi.cfg.exit, labels=("N", "T", "F")):
            R.bad(fi, fi.node, "mutator does not notify observers", stmt="self.notify()")
    rs = ctx.func("RefDict.set_item")
    R.inst("RefDict.set_item delegates to ImplDict.set_item")
    if not [c for c in q.calls(rs, name="set_item") if call_recv(c) == "ImplDict"]:
        R.bad(rs, rs.node, "RefDict.set_item bypasses the notifying mutator", stmt="ImplDict.set_item")
    ln = ctx.func("LazyEval.notify")
    R.inst("LazyEval.notify: is_fresh = False, then observers' notify()")
    ws = [st for st, t in q.attr_writes(ln, attr="is_fresh", recv="self") if norm(st.value) == "False"]
    lp = [x for x in walk_local(ln.node) if isinstance(x, ast.For) and norm(x.iter) == "self.observers"]
    if not ws or not ln.cfg.must_pass(q.nodes_for(ln, ws), ln.cfg.exit) or not lp or \
            not any(isinstance(c, ast.Call) and call_name(c) == "notify" for c in ast.walk(lp[0])):
        R.bad(ln, ln.node, "notification does not mark stale and propagate", stmt="notify")
    else:
        # an observer that is already stale may be skipped, nothing else
        for c in [c for c in ast.walk(lp[0]) if isinstance(c, ast.Call) and call_name(c) == "notify"]:
            g = {t for t in q.guards_of(ln, c)}
            v_ = norm(lp[0].target)
            if not g <= {("%s.is_fresh" % v_, "T")}:
                R.bad(ln, c, "propagation to observers is conditional on %s" % sorted(g))
    bn = ctx.func("BaseNamespaceReferrer.notify")
    R.inst("BaseNamespaceReferrer.notify -> on_namespace_change()")
    if not q.calls(bn, name="on_namespace_change", recv="self"):
        R.bad(bn, bn.node, "namespace change does not reach the referrer", stmt="on_namespace_change")
    ao = ctx.func("ChainObserver.append_observer")
    R.inst("append_observer links both directions")
    if not q.calls(ao, name="append", recv="self.observers") or not q.calls(ao, name="append", recv="observer.subjects"):
        R.bad(ao, ao.node, "observer link incomplete", stmt="append_observer")


@rule("C02.R3", "C02", "TABLE", "observer wiring reaches an invalidation", min_instances=8, also=("C09",))
def r3(ctx, R):
    """LazyEvalChainMap subscribes to each map; space and cells subscribe to the space's
    namespace; on_namespace_change overrides invalidate (cells: clear_all_values; space:
    del_all_itemspaces; static space: also the roots of its _dynamic_subs); dynamic spaces
    observe their base's references."""
    lc = ctx.func("LazyEvalChainMap.__init__")
    R.inst("LazyEvalChainMap.__init__: every map gets this chain map as observer")
    lp = [x for x in walk_local(lc.node) if isinstance(x, ast.For) and norm(x.iter) == "maps"]
    if not lp or not any(isinstance(c, ast.Call) and call_name(c) == "append_observer" and [norm(a) for a in c.args] == ["self"]
                         for c in ast.walk(lp[0])):
        R.bad(lc, lc.node, "chain map does not observe its maps: member edits do not reach the namespace", stmt="append_observer")
    bi = ctx.func("BaseSpaceImpl.__init__")
    R.inst("BaseSpaceImpl.__init__: the space observes its own namespace")
    oc = [c for c in q.calls(bi, name="__init__") if call_recv(c) == "BaseNamespaceReferrer"]
    if not oc or [norm(a) for a in oc[0].args] != ["self", "self._namespace"]:
        R.bad(bi, bi.node, "space does not observe its namespace: ItemSpaces survive member edits", stmt="BaseNamespaceReferrer.__init__")
    bn = ctx.func("BaseNamespaceReferrer.__init__")
    R.inst("BaseNamespaceReferrer.__init__: observe(namespace)")
    if not [c for c in q.calls(bn, name="observe") if c.args and norm(c.args[0]) == "namespace"]:
        R.bad(bn, bn.node, "referrer is not subscribed", stmt="observe(namespace)")
    for spec, want in (("CellsImpl.on_namespace_change", "clear_all_values"),
                       ("ItemSpaceParent.on_namespace_change", "del_all_itemspaces")):
        fi = ctx.func(spec)
        R.inst("%s -> %s" % (spec, want))
        cs = q.calls(fi, name=want, recv="self")
        if not cs or not fi.cfg.must_pass(q.nodes_for(fi, cs), fi.cfg.exit, labels=("N", "T", "F")):
            R.bad(fi, fi.node, "namespace change does not invalidate (%s)" % want, stmt=want)
    db = ctx.func("DynamicBase.on_namespace_change")
    R.inst("DynamicBase.on_namespace_change: own ItemSpaces and the instance roots built from this space")
    own = [c for c in q.calls(db, name="on_namespace_change") if call_recv(c) == "ItemSpaceParent"] + \
        q.calls(db, name="del_all_itemspaces", recv="self")
    roots = q.calls(db, name="clear_subs_rootitems", recv="self")
    if not own or not db.cfg.must_pass(q.nodes_for(db, own), db.cfg.exit, labels=("N", "T", "F")):
        R.bad(db, db.node, "a space's own ItemSpaces survive a change of its members", stmt="own ItemSpaces")
    if not roots or not db.cfg.must_pass(q.nodes_for(db, roots), db.cfg.exit, labels=("N", "T", "F")):
        R.bad(db, db.node, "instances built from this space (as base or as a child of their base) survive a change of its "
                           "members: only the ItemSpaces nested in them are deleted", stmt="clear_subs_rootitems()")
    di = ctx.func("DynamicSpaceImpl._init_refs")
    R.inst("DynamicSpaceImpl._init_refs: _dynbase_refs observes the base's own_refs")
    if not [c for c in q.calls(di, name="observe") if norm(c.func.value) == "self._dynbase_refs" and
            c.args and norm(c.args[0]) == "self._dynbase.own_refs"]:
        R.bad(di, di.node, "dynamic space does not follow changes of its base's references", stmt="observe")
    ii = ctx.func("ItemSpaceImpl._init_refs")
    R.inst("ItemSpaceImpl._init_refs: refs observe the arguments")
    if not [c for c in q.calls(ii, name="observe") if c.args and norm(c.args[0]) == "self._arguments"]:
        R.bad(ii, ii.node, "refs chain does not observe the argument map", stmt="observe(_arguments)")
    us = ctx.func("UserSpaceImpl._init_refs")
    R.inst("UserSpaceImpl refs chain includes the model's global refs (model-level edits reach every space)")
    if "self.model._global_refs" not in " ".join(norm(c) for c in q.calls(us, name="RefChainMap")):
        R.bad(us, us.node, "model-level reference edits do not reach the space's namespace", stmt="_global_refs in refs")
    cd = ctx.func("DynamicBase.change_dynsub_refs")
    R.inst("change_dynsub_refs pushes the re-bound reference into every dynamic sub")
    lp = [x for x in walk_local(cd.node) if isinstance(x, ast.For) and norm(x.iter) == "self._dynamic_subs"]
    if not lp or not any(isinstance(c, ast.Call) and call_name(c) == "set_item" and "_dynbase_refs" in norm(c.func) for c in ast.walk(lp[0])):
        R.bad(cd, cd.node, "dynamic subs keep the old reference", stmt="_dynbase_refs.set_item")


@rule("C02.R4", "C02", "SIB", "re-binding a reference name clears the attribute referrers of the old binding", min_instances=6)
def r4(ctx, R):
    """create (SpaceManager.new_ref: the shadowed binding), replace (on_change_ref, ModelImpl.
    change_ref via del_ref, Model.path setter, ReferenceImpl.on_inherit), remove (RefDict.
    del_item, ModelImpl.del_ref) each reach clear_attr_referrers on the binding visible before."""
    nr = ctx.func("SpaceManager.new_ref")
    cr = q.calls(nr, name="on_create_ref")
    ca = q.calls(nr, name="clear_attr_referrers")
    R.inst("SpaceManager.new_ref: a shadowed binding's attribute referrers are cleared before creation")
    ok = False
    for c in ca:
        if c.args and norm(c.args[0]) == "space.refs[name]" and ("name in space.refs", "T") in q.guards_of(nr, c) \
                and cr and not q.path_between(nr, cr[0], c):
            ok = True
    if not ok:
        R.bad(nr, cr[0] if cr else nr.node, "creating a space-level reference that shadows a model-level one leaves formulas "
                                            "that read <space>.<name> by attribute path at the old value",
              stmt="clear_attr_referrers(space.refs[name])")
    oc = ctx.func("UserSpaceImpl.on_change_ref")
    R.inst("on_change_ref: clear_attr_referrers(old ref), old ref captured before deletion")
    ca = q.calls(oc, name="clear_attr_referrers")
    rv = assigned_value(oc, "ref")
    dl = q.calls(oc, name="on_del_ref")
    if not ca or [norm(a) for a in ca[0].args] != ["ref"] or not rv or norm(rv[0]) != "self.own_refs[name]" or \
            not oc.cfg.must_pass(q.nodes_for(oc, ca), oc.cfg.exit, labels=("N", "T", "F")):
        R.bad(oc, oc.node, "re-binding does not clear readers of the old reference", stmt="clear_attr_referrers(ref)")
    elif dl:
        asg = [n_ for n_ in walk_local(oc.node) if isinstance(n_, ast.Assign) and norm(n_.targets[0]) == "ref"]
        if q.path_between(oc, dl[0], asg[0]):
            R.bad(oc, asg[0], "old reference is looked up after it was deleted")
    R.inst("on_change_ref: dynamic subs receive the new reference")
    if not q.calls(oc, name="change_dynsub_refs"):
        R.bad(oc, oc.node, "ItemSpaces keep the old reference", stmt="change_dynsub_refs")
    mc = ctx.func("ModelImpl.change_ref")
    R.inst("ModelImpl.change_ref = del_ref + new_ref")
    d, n_ = q.calls(mc, name="del_ref", recv="self"), q.calls(mc, name="new_ref", recv="self")
    if not d or not n_ or not q.dominated(mc, d, n_[0]):
        R.bad(mc, mc.node, "model-level re-binding does not delete (and clear readers of) the old reference first", stmt="del_ref; new_ref")
    md = ctx.func("ModelImpl.del_ref")
    R.inst("ModelImpl.del_ref: clear_attr_referrers(ref) and del_item")
    ca = q.calls(md, name="clear_attr_referrers")
    if not ca or [q.anorm(md, a) for a in ca[0].args] != ["self.global_refs[name]"] or not q.calls(md, name="del_item"):
        R.bad(md, md.node, "deleting a model-level reference does not clear its readers", stmt="clear_attr_referrers")
    rd = ctx.func("RefDict.del_item")
    R.inst("RefDict.del_item: clear_attr_referrers(self.fresh[name])")
    ca = q.calls(rd, name="clear_attr_referrers")
    if not ca or [q.anorm(rd, a) for a in ca[0].args] != ["self.fresh[name]"]:
        R.bad(rd, rd.node, "deleting a reference does not clear its attribute readers", stmt="clear_attr_referrers")
    rr_ = ctx.func("ReferenceGraph.remove_with_referred")
    R.inst("remove_with_referred: a reference node leaves the graph only when no reader is left")
    rms = q.calls(rr_, name="remove_node", recv="self")
    okr = bool(rms)
    for c in rms:
        g = q.guards_of(rr_, c)
        v_ = norm(c.args[0]) if c.args else "?"
        if not any((l == "T" and t in ("self.degree(%s) == 0" % v_, "self.out_degree(%s) == 0" % v_))
                   or (t in ("self.degree(%s)" % v_, "self.out_degree(%s)" % v_) and l == "F") for t, l in g):
            okr = False
    if not okr:
        R.bad(rr_, rms[0] if rms else rr_.node, "a reference that still has readers is dropped from the reference graph "
                                                 "when one of its readers is cleared: the remaining readers are not "
                                                 "invalidated when the reference changes", stmt="remove_node(ref) guard")
    rn = q.calls(rr_, name="remove_nodes_from", recv="self")
    if not rn or [norm(a) for a in rn[0].args] != ["nodes"]:
        R.bad(rr_, rr_.node, "cleared readers stay in the reference graph", stmt="remove_nodes_from(nodes)")
    tm = ctx.func("TraceManager.clear_attr_referrers")
    R.inst("clear_attr_referrers removes the reference from refgraph with its readers (see C06.R4)")
    if not [c for c in q.calls(tm, name="remove_with_descs") if (call_recv(c) or "").endswith("refgraph")]:
        R.bad(tm, tm.node, "readers of the reference are not looked up in the reference graph", stmt="refgraph.remove_with_descs")


@rule("C02.R5", "C02", "SIB", "attribute-path reads of references are recorded with the reader's frame index", min_instances=4)
def r5(ctx, R):
    """Producers of refstack (BaseSpaceImpl.get_attr, Model.path getter) push
    (callstack.counter - 1, <ref>) under `callstack.counter` non-zero; get_attr pushes for every
    ReferenceImpl value; interface attribute access goes through get_attr."""
    prods = []
    for f in ctx.repo.all_funcs(modules=["modelx.core"]):
        if f.short == "CallStack.rollback":
            continue        # re-tags drained reads for the calling frame: decided by C05.R3
        for c in q.calls(f, name="append", recv_endswith="refstack"):
            prods.append((f, c))
    R.need(len(prods) >= 2, "expected >=2 producers of refstack, found %d" % len(prods))
    shapes = set()
    for f, c in prods:
        R.inst("refstack producer %s" % f.short)
        a = c.args[0] if c.args else None
        if not (isinstance(a, ast.Tuple) and len(a.elts) == 2):
            R.bad(f, c, "refstack entry is not (frame index, reference)")
            continue
        idx = q.rnorm(f, a.elts[0]).replace("self._impl.system", "<sys>").replace("self.system", "<sys>")
        shapes.add(idx)
        if idx != "<sys>.callstack.counter - 1":
            R.bad(f, c, "reference read is attributed to frame `%s`, the consumers compare with counter after the decrement "
                        "(must be callstack.counter - 1)" % norm(a.elts[0]))
        g = {(t.replace("self._impl.system", "<sys>").replace("self.system", "<sys>"), l) for t, l in q.guards_of(f, c).resolved()}
        if ("<sys>.callstack.counter", "T") not in g:
            R.bad(f, c, "reference read recorded outside a formula execution")
    ga = ctx.func("BaseSpaceImpl.get_attr")
    R.inst("get_attr records every ReferenceImpl value")
    c = q.calls(ga, name="append", recv_endswith="refstack")
    if c:
        g = q.guards_of(ga, c[0])
        if ("isinstance(self.namespace[name], ReferenceImpl)", "T") not in g or len(g) != 2:
            R.bad(ga, c[0], "not every reference read is recorded (guards: %s)" % sorted(g))
        if q.rnorm(ga, c[0].args[0].elts[1]) != "self.namespace[name]":
            R.bad(ga, c[0], "recorded object is not the reference that was read")
    mg = ctx.func("ModelImpl.get_attr")
    R.inst("ModelImpl.get_attr records the model-level reference it hands out (`_model.<name>` in a formula)")
    c = q.calls(mg, name="append", recv_endswith="refstack")
    rr = [r_ for r_ in q.returns(mg) if q.anorm(mg, r_.value) == "self.global_refs[name].interface"]
    if not c or not rr or q.anorm(mg, c[0].args[0].elts[1]) != "self.global_refs[name]" or \
            not all(q.path_between(mg, c[0], r_) for r_ in rr) or \
            set(q.guards_of(mg, c[0])) - set(q.guards_of(mg, rr[0])) != {("self.system.callstack.counter", "T")}:
        R.bad(mg, mg.node, "a model-level reference read as _model.<name> is not recorded: precedents() omits it",
              stmt="refstack.append in ModelImpl.get_attr")
    mp = ctx.func("Model.path")
    R.inst("Model.path getter records property_refs['path']")
    c = q.calls(mp, name="append", recv_endswith="refstack")
    if not c or "property_refs['path']" not in norm(c[0]):
        R.bad(mp, mp.node, "reads of model.path are not recorded", stmt="refstack.append")
    bg = ctx.func("BaseSpace.__getattr__")
    R.inst("BaseSpace.__getattr__ -> _impl.get_attr (the only way an interface yields a reference value)")
    if not q.calls(bg, name="get_attr", recv="self._impl"):
        R.bad(bg, bg.node, "attribute access bypasses get_attr: reads are not recorded", stmt="get_attr")
