"""C01 - memoisation is transparent: computed once, one element per bound argument tuple."""
import ast

from ..framework import rule
from ..astutil import dotted, call_name, call_recv, norm, walk_local, unparse
from .. import q

META = {
    "explanation": (
        "Decides the structural clauses behind C01: (R1) formulas are invoked only inside "
        "on_eval_formula, which is reachable only through the executor's cache-miss branch - "
        "the hit branch returns the held value from the very container that has_node tests "
        "and the store writes; (R2) the result is stored under exactly the key that was "
        "looked up and pushed; (R3) every user spelling of a call is normalised through "
        "signature.bind + apply_defaults before it becomes a key; (R4) the function object "
        "that is executed is rebuilt over the owner's own *fresh* namespace, and no stale "
        "interface mapping can be read."),
    "not_decided": [
        "equality of the value with an independent evaluation of the formula",
        "re-execution caused by invalidation that is broader than necessary (allowed)",
    ],
    "assumptions": ["modelx objects are reached only through the attributes listed in FIELD_TYPES"],
}

FRESH_PROPS = ("namespace", "cells", "refs", "own_refs", "named_spaces", "all_spaces",
               "named_itemspaces", "global_refs", "spaces", "property_refs")


def formula_calls(fi):
    return [c for c in q.calls(fi, name="altfunc") if (call_recv(c) or "").endswith("altfunc.fresh")]


def stores_assign(fi, name):
    """Is local/param `name` re-bound anywhere in fi (other than as parameter)?"""
    for n in walk_local(fi.node):
        if isinstance(n, ast.Name) and n.id == name and isinstance(n.ctx, (ast.Store, ast.Del)):
            return n
    return None


@rule("C01.R1", "C01", "WMC", "formula reachable only through the cache-miss branch of eval_node",
      min_instances=12, also=("C07",))
def r1(ctx, R):
    """Formula invocations `<o>.altfunc.fresh.altfunc(*key)` occur only in on_eval_formula;
    on_eval_formula <- _eval_formula <- {eval_node, _start_exec, ExecThread.run}; _start_exec
    <- eval_node; in eval_node the miss calls are unreachable when both `is_cached` and
    `has_node(key)` came out true, and the hit path returns `<o>.data[key]` of the same
    object and key; has_node / data / store agree on the container."""
    repo = ctx.repo
    sites = []
    for f in repo.all_funcs():
        for c in formula_calls(f):
            sites.append((f, c))
        # any other way of running the raw function
        for c in q.calls(f, name="func"):
            r = call_recv(c) or ""
            if r.endswith("formula"):
                R.bad(f, c, "formula function invoked directly, bypassing the cache and the call stack")
    R.need(len({f.qual for f, _ in sites}) >= 2, "expected formula invocation sites in >=2 functions, found %d" % len({f.qual for f, _ in sites}))
    for f, c in sites:
        R.inst("formula call in %s at %s" % (f.short, f.loc(c)))
        if f.name != "on_eval_formula":
            R.bad(f, c, "formula is invoked outside on_eval_formula (not under the executor's miss branch)")
    R.slot("formula_call_sites", ["%s@%s" % (f.short, f.loc(c)) for f, c in sites])

    def callers_by_name(name):
        out = []
        for f in repo.all_funcs():
            for c in q.calls(f, name=name):
                out.append((f, c))
        return out

    allowed = {
        "on_eval_formula": {"NonThreadedExecutor._eval_formula"},
        "_eval_formula": {"NonThreadedExecutor.eval_node", "NonThreadedExecutor._start_exec",
                          "ThreadedExecutor.ExecThread.run"},
        "_start_exec": {"NonThreadedExecutor.eval_node"},
    }
    for name, ok in allowed.items():
        cs = callers_by_name(name)
        R.must(cs, "no caller of %s found" % name)
        R.slot("callers_of_" + name, sorted({f.short for f, _ in cs}))
        for f, c in cs:
            R.inst("caller of %s: %s" % (name, f.short))
            if f.short not in ok:
                R.bad(f, c, "%s called from %s; only %s may call it (cache test would be bypassed)"
                      % (name, f.short, sorted(ok)))
    # eval_node miss/hit structure
    en = ctx.func("NonThreadedExecutor.eval_node")
    cfg = en.cfg
    miss = q.calls(en, name=("_eval_formula", "_start_exec"))
    R.must(len(miss) >= 2, "eval_node: expected calls of _eval_formula and _start_exec")
    t_has = [n for n in cfg.nodes if n.kind == "test" and q.mentions_call(n.ast, "has_node")]
    t_cached = [n for n in cfg.nodes if n.kind == "test" and norm(n.ast).endswith(".is_cached")]
    R.inst("eval_node: the held-value decision is a membership test (has_node) on a cached cells")
    if len(t_has) != 1 or len(t_cached) != 1:
        R.bad(en, en.node, "eval_node does not decide hit/miss by `is_cached and has_node(key)`: a held value that is "
                           "falsy/None is taken for a miss and recomputed (or a miss is served from elsewhere)",
              stmt="hit test")
        return
    th, tc = t_has[0], t_cached[0]
    hcall = [c for c in ast.walk(th.ast) if isinstance(c, ast.Call) and call_name(c) == "has_node"][0]
    obj = norm(hcall.func.value) if isinstance(hcall.func, ast.Attribute) else None
    keyarg = hcall.args[0] if hcall.args else None
    R.slot("eval_node", {"has_node_test": norm(th.ast), "cached_test": norm(tc.ast),
                         "miss_calls": [norm(m) for m in miss]})
    R.inst("eval_node: has_node receiver is the node's object and its argument the node's key")
    okrecv = norm(tc.ast.value) == obj if isinstance(tc.ast, ast.Attribute) else False
    if not okrecv:
        R.bad(en, th.ast, "is_cached and has_node are tested on different objects")
    # canonical form: obj is node[OBJ], key is node[KEY]
    if not (obj == "node[OBJ]" and keyarg is not None and norm(keyarg) == "node[KEY]"):
        R.bad(en, th.ast, "has_node is not applied to (node[OBJ], node[KEY])")
    for m in miss:
        R.inst("eval_node: `%s` unreachable when is_cached and has_node are both true" % norm(m))
        r = cfg.reach([cfg.entry], avoid_edges={(th.id, "F"), (tc.id, "F")})
        for mid in q.nodes_for(en, m):
            if mid in r:
                R.bad(en, m, "a held element can be recomputed: the formula path is reachable on a cache hit")
        a0 = m.args[0] if m.args else None
        if not (isinstance(a0, ast.Name) and a0.id == "node"):
            R.bad(en, m, "miss branch evaluates a node other than the one that was looked up")
    R.inst("eval_node: has_node is tested on every evaluation of a cached cells")
    for m in miss:
        # on paths where is_cached is true, has_node must have been evaluated (false) before the miss
        r = cfg.reach([cfg.entry], avoid={th.id}, avoid_edges={(tc.id, "F")})
        for mid in q.nodes_for(en, m):
            if mid in r:
                R.bad(en, m, "a cached cells can reach the formula without the held-value test")
    # hit path returns data[key]: whatever is returned on the paths where both tests came out true
    rets = q.returns(en)
    R.must(rets, "eval_node: no return")
    want_hit = "%s.data[%s]" % (obj, unparse(keyarg))
    hit_run = q.run_abstract(en, lambda e: "T" if (e is th.ast or e is tc.ast) else None)
    hit_vals = []
    for r_ in rets:
        if not any(i in hit_run for i in q.nodes_for(en, r_)):
            continue
        if isinstance(r_.value, ast.Name) and r_.value.id not in q.single_defs(en):
            # a local assigned on several paths: the assignments that reach this return on a hit
            for n in walk_local(en.node):
                if isinstance(n, ast.Assign) and any(isinstance(t, ast.Name) and t.id == r_.value.id for t in n.targets) \
                        and any(i in hit_run for i in q.nodes_for(en, n)) and q.path_between(en, n, r_):
                    hit_vals.append((n, norm(n.value)))
        else:
            hit_vals.append((r_, norm(q.origin(en, r_.value))))
    R.inst("eval_node: hit path yields <obj>.data[<key>] of the tested object and key")
    if not hit_vals or any(v != want_hit for _, v in hit_vals):
        R.bad(en, hit_vals[0][0] if hit_vals else en.node, "cache hit does not return %s" % want_hit, stmt="hit value")
    else:
        # the held value is read only when both tests came out true
        for tn in (th, tc):
            other = q.run_abstract(en, lambda e, tn=tn: "F" if e is tn.ast else None)
            for n, _ in hit_vals:
                if any(i in other for i in q.nodes_for(en, n)):
                    R.bad(en, n, "the held value is read although `%s` is false (KeyError, or a value served for an "
                                 "uncached cells)" % norm(tn.ast))
    # container agreement
    table = {}
    for cname, cont in (("CellsImpl", "data"), ("ItemSpaceParent", "param_spaces")):
        hn = ctx.func("%s.has_node" % cname)
        rr = q.returns(hn)
        R.inst("%s.has_node is `key in self.%s`" % (cname, cont))
        ok = (len(rr) == 1 and isinstance(rr[0].value, ast.Compare) and len(rr[0].value.ops) == 1
              and isinstance(rr[0].value.ops[0], ast.In) and norm(rr[0].value.left) == "key"
              and norm(rr[0].value.comparators[0]) == "self.%s" % cont)
        table[cname] = norm(rr[0].value) if rr else None
        if not ok:
            R.bad(hn, rr[0] if rr else hn.node, "has_node does not test membership in the container that "
                                                "holds the values (`self.%s`)" % cont)
    dp = ctx.func("ItemSpaceParent.data")
    rr = q.returns(dp)
    R.inst("ItemSpaceParent.data is param_spaces (eval_node reads <obj>.data[key])")
    if not (len(rr) == 1 and norm(rr[0].value) == "self.param_spaces"):
        R.bad(dp, dp.node, "ItemSpaceParent.data no longer returns param_spaces", stmt="data property")
    R.slot("container_table", table)
    # get_value_from_key of ItemSpaceParent reads the same container
    # siblings: both get_value_from_key go through the executor (hit: held object, miss: (re)computed) -
    # recalculation after an edit calls them for elements that the edit has just discarded
    EV = "self.system.executor.eval_node(key_to_node(self, key))"
    for spec, want in (("CellsImpl.get_value_from_key", EV), ("ItemSpaceParent.get_value_from_key", EV + ".interface")):
        gv = ctx.func(spec)
        rr = q.returns(gv)
        R.inst("%s evaluates the element's node through the executor" % spec)
        if not (len(rr) == 1 and q.rnorm(gv, rr[0].value) == want):
            R.bad(gv, gv.node, "get_value_from_key does not evaluate the element: a held element is looked up only (KeyError "
                               "for an element that was just discarded), or the cache is bypassed", stmt="get_value_from_key")


@rule("C01.R2", "C01", "FLOW", "result stored under the key that was looked up", min_instances=8, also=("C07",))
def r2(ctx, R):
    """on_eval_formula(self, key): key is never re-bound; formula call is `(*key)`; store is
    `_store_value(key, ...)` / `param_spaces[key] = ...`; _store_value writes `data[key] = value`
    and returns value; _eval_formula passes node[KEY] of the pushed node."""
    for spec in ("CellsImpl.on_eval_formula", "ItemSpaceParent.on_eval_formula"):
        fi = ctx.func(spec)
        R.need(fi.params[:2] == ["self", "key"], "%s signature changed: %s" % (spec, fi.params))
        R.inst("%s: parameter key is not re-bound" % spec)
        rb = stores_assign(fi, "key")
        if rb is not None:
            R.bad(fi, rb, "parameter `key` is re-bound before it is used as the storage key")
        fcs = formula_calls(fi)
        R.must(fcs, "%s: no formula call" % spec)
        for c in fcs:
            R.inst("%s: formula called with exactly *key" % spec)
            ok = (len(c.args) == 1 and isinstance(c.args[0], ast.Starred)
                  and isinstance(c.args[0].value, ast.Name) and c.args[0].value.id == "key"
                  and not c.keywords)
            if not ok:
                R.bad(fi, c, "formula is not called with the element's own key (`*key`)")
    fi = ctx.func("CellsImpl.on_eval_formula")
    sts = q.calls(fi, name="_store_value")
    if not sts:
        R.bad(fi, fi.node, "computed value is never stored", stmt="_store_value")
    for c in sts:
        R.inst("CellsImpl.on_eval_formula: _store_value(key, ...)")
        if not (c.args and isinstance(c.args[0], ast.Name) and c.args[0].id == "key"):
            R.bad(fi, c, "value stored under a key other than the one looked up")
    for r_ in q.returns(fi):
        R.inst("CellsImpl.on_eval_formula: returns the stored/computed value")
        v = q.origin(fi, r_.value)
        ok = isinstance(v, ast.Call) and (v in sts or v in formula_calls(fi))
        if not ok:
            R.bad(fi, r_, "on_eval_formula returns something other than the value just computed")
    sv = ctx.func("CellsImpl._store_value")
    R.need(sv.params[:3] == ["self", "key", "value"], "_store_value signature changed")
    for st, t in q.subscript_writes(sv, "data"):
        R.inst("_store_value: `%s`" % norm(st))
        if not (isinstance(st, ast.Assign) and norm(t) == "self.data[key]" and norm(st.value) == "value"):
            R.bad(sv, st, "_store_value does not write data[key] = value")
    for nm in ("key", "value"):
        rb = stores_assign(sv, nm)
        if rb is not None:
            R.bad(sv, rb, "_store_value re-binds `%s`" % nm)
    R.inst("_store_value returns value")
    for r_ in q.returns(sv):
        if norm(r_.value) != "value":
            R.bad(sv, r_, "_store_value returns something other than the stored value")
    sp = ctx.func("ItemSpaceParent.on_eval_formula")
    ws = q.subscript_writes(sp, "param_spaces")
    if not ws:
        R.bad(sp, sp.node, "created ItemSpace is never stored", stmt="param_spaces[key] =")
    for st, t in ws:
        R.inst("ItemSpaceParent.on_eval_formula: `%s`" % norm(st))
        if not (isinstance(st, ast.Assign) and norm(t.slice) == "key"):
            R.bad(sp, st, "ItemSpace stored under a key other than the one looked up")
        else:
            for r_ in q.returns(sp):
                if norm(r_.value) != norm(st.value):
                    R.bad(sp, r_, "on_eval_formula returns an object other than the stored ItemSpace")
    ef = ctx.func("NonThreadedExecutor._eval_formula")
    c = q.calls(ef, name="on_eval_formula")
    R.must(len(c) == 1, "_eval_formula: on_eval_formula call not found")
    R.inst("_eval_formula: on_eval_formula(node[KEY]) on node[OBJ] of the pushed node")
    recv = norm(c[0].func.value) if isinstance(c[0].func, ast.Attribute) else None
    arg = c[0].args[0] if c[0].args else None
    push = q.calls(ef, name="append", recv_endswith="callstack")
    pushed = norm(push[0].args[0]) if push and push[0].args else None
    ok = (pushed == "node" and recv == "node[OBJ]" and arg is not None and norm(arg) == "node[KEY]")
    if not ok:
        R.bad(ef, c[0], "the evaluated (object, key) is not the node that was pushed on the call stack")
    R.inst("_eval_formula: returns the value of on_eval_formula")
    for r_ in q.returns(ef):
        v = r_.value
        good = False
        if isinstance(v, ast.Name):
            for n in walk_local(ef.node):
                if isinstance(n, ast.Assign) and any(isinstance(t, ast.Name) and t.id == v.id for t in n.targets):
                    if n.value is c[0]:
                        good = True
                    else:
                        good = False
                        break
        if not good:
            R.bad(ef, r_, "_eval_formula does not return the computed value")


@rule("C01.R3", "C01", "FLOW", "every spelling of a call is normalised to one key", min_instances=14, also=("C07", "C06",))
def r3(ctx, R):
    """get_node builds the key with _bind_args; _bind_args / node_get_args follow
    bind -> apply_defaults -> arguments; callers of eval_node pass get_node(...) or
    key_to_node(self, key) where key is a parameter; callers of the un-normalising entry
    get_value_from_key pass a key projected from an existing node."""
    gn = ctx.func("node:get_node")
    R.inst("get_node: key is _bind_args(obj, args, kwargs)")
    rets = [r_ for r_ in q.returns(gn) if isinstance(r_.value, ast.Tuple) and len(r_.value.elts) == 2]
    ok = False
    for r_ in rets:
        k = q.resolve(gn, r_.value.elts[1])
        if isinstance(k, ast.Call) and call_name(k) == "_bind_args" and len(k.args) == 3 and not k.keywords \
                and [norm(a) for a in k.args[:2]] == ["obj", "args"] and norm(r_.value.elts[0]) == "obj":
            # third argument: the caller's kwargs, with None replaced by an empty mapping
            alts = sorted((norm(v), tuple(sorted(g))) for v, g in q.arms(gn, k.args[2]))
            if alts in ([("kwargs", ())], [("kwargs", (("kwargs is None", "F"),)), ("{}", (("kwargs is None", "T"),))]):
                ok = True
    if not ok:
        R.bad(gn, gn.node, "get_node no longer returns (obj, _bind_args(obj, args, kwargs))", stmt="return")
    R.inst("get_node: kwargs=None is replaced by an empty mapping, never dropped when given")
    for n in walk_local(gn.node):
        if isinstance(n, ast.Assign) and any(isinstance(t, ast.Name) and t.id in ("kwargs", "args") for t in n.targets):
            if not q.depends(gn, n, lambda e: norm(e) in ("kwargs is None", "args is None"), "T"):
                R.bad(gn, n, "get_node overwrites the caller's %s" % norm(n.targets[0]))
    for spec, bindargs in (("node:_bind_args", "(*args, **kwargs)"), ("node:node_get_args", "(*key)")):
        fi = ctx.func(spec)
        binds = [c for c in q.calls(fi, name=("bind", "bind_partial"))]
        R.inst("%s: signature.bind%s -> apply_defaults() -> .arguments" % (spec, bindargs))
        if len(binds) != 1 or call_name(binds[0]) != "bind" or not (call_recv(binds[0]) or "").endswith("formula.signature"):
            R.bad(fi, fi.node, "key is not produced by formula.signature.bind", stmt="bind")
            continue
        b = binds[0]
        argtxt = "(" + ", ".join([unparse(a).replace("node[KEY]", "key") for a in b.args] + ["**" + unparse(k.value) for k in b.keywords if k.arg is None]) + ")"
        if argtxt != bindargs:
            R.bad(fi, b, "bind is not given all of the caller's arguments (%s)" % argtxt)
        pm = fi.pm
        st = pm[b]
        var = st.targets[0].id if isinstance(st, ast.Assign) and isinstance(st.targets[0], ast.Name) else None
        if var is None:
            R.bad(fi, b, "bound arguments are not kept in a local")
            continue
        ad = [c for c in q.calls(fi, name="apply_defaults") if call_recv(c) == var]
        reads = [n for n in walk_local(fi.node) if isinstance(n, ast.Attribute) and n.attr == "arguments"
                 and dotted(n.value) == var]
        if not ad:
            R.bad(fi, b, "apply_defaults() is not called: f(1) and f(1, y=<default>) become different elements",
                  stmt="apply_defaults")
        elif not reads:
            R.bad(fi, b, ".arguments of the bound signature is not what becomes the key")
        else:
            for rd in reads:
                if not q.dominated(fi, ad, rd):
                    R.bad(fi, rd, ".arguments is read before apply_defaults()")
    # every key that is looked up in an instance table was normalised (signature defaults applied)
    for f in ctx.repo.module("modelx.core.space").all_funcs:
        if f.cls is None or f.cls.name not in ("BaseSpace", "UserSpace", "DynamicSpace", "ItemSpace"):
            continue
        for x in walk_local(f.node):
            if isinstance(x, ast.Compare) and len(x.ops) == 1 and isinstance(x.ops[0], (ast.In, ast.NotIn)) \
                    and "param_spaces" in norm(x.comparators[0]) and isinstance(x.left, ast.Name):
                kdef = q.origin(f, x.left)
                if kdef is x.left:      # a re-bound parameter: the one assignment that dominates the test
                    asg = [n_ for n_ in walk_local(f.node) if isinstance(n_, ast.Assign) and len(n_.targets) == 1
                           and norm(n_.targets[0]) == x.left.id]
                    if len(asg) == 1 and q.dominated(f, [asg[0]], x):
                        kdef = asg[0].value
                R.inst("%s: key tested against param_spaces is a normalised key" % f.short)
                txt = norm(kdef)
                if not (isinstance(kdef, ast.Subscript) and norm(kdef.slice) == "KEY" and "get_node(" in txt):
                    R.bad(f, x, "an ItemSpace is looked up under the raw key `%s`: with default parameters S[1] exists under "
                                "(1, 2) but this spelling does not find it" % txt)
    ba = ctx.func("node:_bind_args")
    R.inst("_bind_args returns tuple(arguments.values())")
    rr = q.returns(ba)
    rv = q.resolve(ba, rr[0].value) if len(rr) == 1 else None
    if not (isinstance(rv, ast.Call) and norm(rv.func) == "tuple" and len(rv.args) == 1
            and norm(rv.args[0]).endswith(".arguments.values()")):
        R.bad(ba, ba.node, "_bind_args does not return the tuple of bound argument values", stmt="return")
    # callers of eval_node
    n_callers = 0
    for f in ctx.repo.all_funcs():
        for c in q.calls(f, name="eval_node"):
            n_callers += 1
            R.inst("eval_node caller %s" % f.short)
            a = c.args[0] if c.args else None
            ok = False
            how = None
            if isinstance(a, ast.Call) and call_name(a) == "key_to_node":
                how = a
            elif isinstance(a, ast.Call) and call_name(a) == "get_node":
                how = a
            elif isinstance(a, ast.Name):
                for n in walk_local(f.node):
                    if isinstance(n, ast.Assign) and any(isinstance(t, ast.Name) and t.id == a.id for t in n.targets):
                        if isinstance(n.value, ast.Call) and call_name(n.value) in ("get_node", "key_to_node") \
                                and q.dominated(f, [n], c):
                            how = n.value
            if how is not None:
                if call_name(how) == "get_node":
                    ok = len(how.args) == 3 and norm(how.args[0]) == "self" and \
                         norm(how.args[1]) == "args" and norm(how.args[2]) == "kwargs" \
                         and stores_assign(f, "args") is None
                else:
                    ok = len(how.args) == 2 and norm(how.args[0]) == "self" and norm(how.args[1]) == "key" \
                         and "key" in f.params and stores_assign(f, "key") is None
            if not ok:
                R.bad(f, c, "eval_node is given a node that is not get_node(self, args, kwargs) / "
                            "key_to_node(self, key) of the caller's own parameters")
    R.need(n_callers >= 4, "expected >=4 callers of eval_node, found %d" % n_callers)
    # un-normalising entry
    n2 = 0
    for f in ctx.repo.all_funcs(modules=["modelx.core"]):
        for c in q.calls(f, name="get_value_from_key"):
            n2 += 1
            R.inst("get_value_from_key caller %s" % f.short)
            a = c.args[0] if c.args else None
            ok = isinstance(a, ast.Subscript) and norm(a.slice) == "KEY"
            if not ok and isinstance(a, ast.Name):
                for n in walk_local(f.node):
                    if isinstance(n, ast.Assign) and len(n.targets) == 1:
                        t, v = n.targets[0], n.value
                        pairs = zip(t.elts, v.elts) if isinstance(t, ast.Tuple) and isinstance(v, ast.Tuple) else [(t, v)]
                        for tt, vv in pairs:
                            if isinstance(tt, ast.Name) and tt.id == a.id and isinstance(vv, ast.Subscript) \
                                    and norm(vv.slice) == "KEY":
                                ok = True
            if not ok:
                R.bad(f, c, "get_value_from_key (no normalisation) is given a key that is not taken from an existing node")
    R.need(n2 >= 5, "expected >=5 callers of get_value_from_key, found %d" % n2)
    # interface entry points reach a normalising impl method
    entry = {
        "Cells.__call__": ("get_value", ["args", "kwargs"]),
        "Cells.__getitem__": ("get_value", None),
        "Cells.__setitem__": ("set_value", None),
        "Cells.value.setter": ("set_value", None),
        "Cells.match": ("find_match", ["args", "kwargs"]),
        "BaseSpace.__call__": ("get_itemspace", ["args", "kwargs"]),
        "BaseSpace.__getitem__": ("get_itemspace", None),
        "ItemFactory.preds": ("predecessors", ["args", "kwargs"]),
        "ItemFactory.succs": ("successors", ["args", "kwargs"]),
    }
    for spec, (callee, fwd) in entry.items():
        fi = ctx.func(spec)
        cs = q.calls(fi, name=callee, recv="self._impl")
        R.inst("%s -> _impl.%s" % (spec, callee))
        if not cs:
            R.bad(fi, fi.node, "%s no longer goes through _impl.%s (key normalisation)" % (spec, callee),
                  stmt=callee)
        elif fwd is not None and [norm(a) for a in cs[0].args][:2] != fwd:
            R.bad(fi, cs[0], "positional and keyword arguments are not both forwarded")
    for spec in ("CellsImpl.get_value", "CellsImpl.call", "CellsImpl.set_value", "CellsImpl.find_match",
                 "ItemSpaceParent.get_itemspace", "ItemFactoryImpl.predecessors", "ItemFactoryImpl.successors",
                 "ItemFactoryImpl.get_attrpreds", "Cells.clear_at", "Cells.is_input", "BaseSpace.clear_at",
                 "ItemFactory.node"):
        fi = ctx.func(spec)
        gns = q.calls(fi, name="get_node")
        R.inst("%s builds its key with get_node" % spec)
        if not gns:
            R.bad(fi, fi.node, "%s no longer normalises its arguments with get_node" % spec, stmt="get_node")
            continue
        g = gns[0]
        a1 = norm(g.args[1]) if len(g.args) > 1 else None
        a2 = norm(g.args[2]) if len(g.args) > 2 else None
        if a1 != "args" or a2 not in ("kwargs", "{}"):
            R.bad(fi, g, "get_node is not given the caller's (args, kwargs)")
        elif a2 == "{}" and "kwargs" in fi.params:
            R.bad(fi, g, "keyword arguments are dropped before normalisation")
        # every use of a key downstream comes from that node
        for c in q.calls(fi, name=("has_node", "clear_value_at", "clear_itemspace_at", "set_value_from_key")):
            a = c.args[0] if c.args else None
            if a is None:
                continue
            okk = False
            if isinstance(a, ast.Subscript) and norm(a.slice) == "KEY":
                okk = True
            elif isinstance(a, ast.Name):
                for n in walk_local(fi.node):
                    if isinstance(n, ast.Assign) and any(isinstance(t, ast.Name) and t.id == a.id for t in n.targets):
                        v = n.value
                        if isinstance(v, ast.Subscript) and norm(v.slice) == "KEY":
                            okk = True
            if not okk:
                R.bad(fi, c, "%s is given a key that does not come from the normalised node" % call_name(c))


@rule("C01.R4", "C01", "FLOW", "formula function is rebuilt over the owner's fresh namespace", min_instances=20)
def r4(ctx, R):
    """(a) the inner function of a BoundFunction is read only through `.fresh`; (b) _refresh
    builds FunctionType over `self.owner.namespace.interfaces`; (c) `.interfaces` is read only
    on fresh-returning properties, which all return `self._x.fresh`; (d) a cells' namespace is
    its *parent's* and derived/dynamic cells are constructed in the sub/instance; (e) LazyEval
    .fresh refreshes subjects first and sets is_fresh; BoundFunction observes the owner's
    namespace."""
    repo = ctx.repo
    # (a)
    n_reads = 0
    read_in = set()
    for f in repo.all_funcs(modules=["modelx.core"]):
        for n in walk_local(f.node):
            if isinstance(n, ast.Attribute) and n.attr == "altfunc" and isinstance(n.ctx, ast.Load) \
                    and isinstance(n.value, ast.Attribute):
                inner = n.value
                if inner.attr == "fresh" and isinstance(inner.value, ast.Attribute) and inner.value.attr == "altfunc":
                    n_reads += 1
                    read_in.add(f.qual)
                    R.inst("read of inner function through .fresh in %s" % f.short)
                elif inner.attr == "altfunc":
                    R.bad(f, n, "inner function of a BoundFunction read without `.fresh`: a formula may run "
                                "over a stale namespace")
    R.need(len(read_in) >= 2, "expected reads of altfunc.fresh.altfunc in >=2 functions")
    # (b)
    for spec in ("BoundFunction._refresh", "CellsBoundFunction._refresh"):
        fi = ctx.func(spec)
        ft = q.calls(fi, name="FunctionType")
        R.must(len(ft) == 1, "%s: FunctionType call not found" % spec)
        g = ft[0].args[1] if len(ft[0].args) > 1 else None
        R.inst("%s: globals derive from self.owner.namespace.interfaces" % spec)
        src = None
        if g is not None:
            if isinstance(g, ast.Name):
                for n in walk_local(fi.node):
                    if isinstance(n, ast.Assign) and any(isinstance(t, ast.Name) and t.id == g.id for t in n.targets):
                        src = n.value
            else:
                src = g
        txt = norm(src) if src is not None else ""
        if "self.owner.namespace.interfaces" not in txt or "_namespace" in txt:
            R.bad(fi, ft[0], "formula globals are not the owner's fresh namespace (`self.owner.namespace.interfaces`)")
        code = ft[0].args[0] if ft[0].args else None
        R.inst("%s: code object is the owner's current formula" % spec)
        okc = code is not None and norm(q.resolve(fi, code)) == "self.owner.formula.func.__code__"
        if not okc:
            R.bad(fi, ft[0], "refreshed function is not built from self.owner.formula.func.__code__")
        R.inst("%s: assigns self.altfunc" % spec)
        if not any(t.attr == "altfunc" and dotted(t.value) == "self" and st.value is ft[0]
                   for st, t in q.attr_writes(fi, attr="altfunc")):
            R.bad(fi, ft[0], "_refresh does not install the rebuilt function")
    # (c)
    n_if = 0
    for f in repo.all_funcs(modules=["modelx.core"]):
        if f.cls is not None and f.cls.name == "InterfaceMixin":
            continue
        for n in walk_local(f.node):
            if isinstance(n, ast.Attribute) and n.attr == "interfaces" and isinstance(n.ctx, ast.Load):
                n_if += 1
                R.inst(".interfaces read in %s on `%s`" % (f.short, norm(n.value)))
                last = n.value.attr if isinstance(n.value, ast.Attribute) else None
                if last not in FRESH_PROPS:
                    R.bad(f, n, "`.interfaces` read on `%s`, which is not a fresh-returning property: "
                                "stale interface mapping" % norm(n.value))
    R.need(n_if >= 12, "expected >=12 reads of .interfaces, found %d" % n_if)
    props = [("NamespaceServer.namespace", "_namespace"), ("CellsImpl.namespace", "_namespace"),
             ("ModelImpl.namespace", "_namespace"), ("ModelImpl.global_refs", "_global_refs"),
             ("ModelImpl.property_refs", "_property_refs"),
             ("BaseSpaceImpl.cells", "_cells"), ("BaseSpaceImpl.refs", "_refs"),
             ("BaseSpaceImpl.own_refs", "_own_refs"), ("BaseParentImpl.spaces", "_named_spaces"),
             ("BaseParentImpl.named_spaces", "_named_spaces"), ("BaseParentImpl.all_spaces", "_all_spaces"),
             ("ItemSpaceParent.named_itemspaces", "_named_itemspaces")]
    for spec, fld in props:
        fi = ctx.func(spec)
        rr = q.returns(fi)
        R.inst("%s returns self.%s.fresh" % (spec, fld))
        if not (len(rr) == 1 and norm(rr[0].value) == "self.%s.fresh" % fld):
            R.bad(fi, rr[0] if rr else fi.node, "property does not return `self.%s.fresh`: readers see a stale container" % fld,
                  stmt="return")
    # (d)
    ci = ctx.func("CellsImpl.__init__")
    R.inst("CellsImpl.__init__: _namespace is the parent space's")
    ws = [st for st, t in q.attr_writes(ci, attr="_namespace", recv="self")]
    if not (len(ws) == 1 and norm(ws[0].value) in ("self.parent._namespace", "space._namespace")):
        R.bad(ci, ws[0] if ws else ci.node, "cells namespace is not its parent space's namespace", stmt="_namespace")
    R.inst("CellsImpl.__init__: Impl.__init__(parent=space)")
    ic = [c for c in q.calls(ci, name="__init__") if call_recv(c) == "Impl"]
    if not ic or norm(q_kw(ic[0], "parent")) != "space":
        R.bad(ci, ic[0] if ic else ci.node, "cells parent is not the space it is created in", stmt="Impl.__init__")
    R.inst("CellsImpl.__init__: observes space._namespace")
    oc = [c for c in q.calls(ci, name="__init__") if call_recv(c) == "BaseNamespaceReferrer"]
    if not oc or len(oc[0].args) < 2 or norm(oc[0].args[1]) not in ("space._namespace", "self.parent._namespace"):
        R.bad(ci, oc[0] if oc else ci.node, "cells does not subscribe to its own space's namespace", stmt="BaseNamespaceReferrer.__init__")
    for spec, ctor, want in (("SpaceManager.new_cells", "UserCellsImpl", None),
                             ("UserSpaceImpl.on_inherit", "UserCellsImpl", "self"),
                             ("DynamicSpaceImpl._init_cells", "DynamicCellsImpl", "self")):
        fi = ctx.func(spec)
        for c in q.calls(fi, name=ctor):
            sp = q_kw(c, "space")
            base = q_kw(c, "base")
            derived = q_kw(c, "is_derived")
            if not (isinstance(derived, ast.Constant) and derived.value is True):
                continue
            R.inst("%s: derived %s is constructed in the sub/instance" % (spec, ctor))
            if want is not None:
                ok = norm(sp) == want
            else:
                loop = None
                for a in fi.pm and __import__("mxsa.astutil", fromlist=["ancestors"]).ancestors(fi.pm, c):
                    if isinstance(a, ast.For):
                        loop = a
                        break
                ok = loop is not None and isinstance(sp, ast.Name) and norm(loop.target) == sp.id \
                    and call_name(loop.iter) == "_get_subs"
            if not ok:
                R.bad(fi, c, "derived cells is created with space=%s: it would evaluate in the wrong namespace"
                      % (norm(sp) if sp is not None else None))
    # owners
    n_bf = 0
    for f in repo.all_funcs(modules=["modelx.core"]):
        for c in q.calls(f, name=("CellsBoundFunction", "BoundFunction")):
            n_bf += 1
            R.inst("%s: %s(self, ...)" % (f.short, call_name(c)))
            if not c.args or norm(c.args[0]) != "self":
                R.bad(f, c, "bound function is created for an owner other than self")
    R.need(n_bf >= 4, "expected >=4 BoundFunction constructions")
    bi = ctx.func("BoundFunction.__init__")
    R.inst("BoundFunction.__init__: observes owner._namespace and starts stale")
    ob = [c for c in q.calls(bi, name="observe") if c.args and norm(c.args[0]) == "owner._namespace"]
    if not ob:
        R.bad(bi, bi.node, "BoundFunction does not observe its owner's namespace: name changes would not rebuild the function",
              stmt="observe(owner._namespace)")
    if not q.calls(bi, name="notify", recv="self"):
        R.bad(bi, bi.node, "BoundFunction does not start in the stale state", stmt="self.notify()")
    # (e) LazyEval.fresh
    fr = ctx.func("LazyEval.fresh")
    R.inst("LazyEval.fresh: subjects refreshed, _refresh(), is_fresh = True, under `not is_fresh`")
    rc = q.calls(fr, name="_refresh", recv="self")
    sf = [st for st, t in q.attr_writes(fr, attr="is_fresh", recv="self")
          if isinstance(st, ast.Assign) and isinstance(st.value, ast.Constant) and st.value.value is True]
    if not rc:
        R.bad(fr, fr.node, "fresh never calls _refresh()", stmt="_refresh")
    else:
        if not q.depends(fr, rc[0], lambda e: norm(e) == "self.is_fresh", "F"):
            R.bad(fr, rc[0], "_refresh() is not performed exactly when the object is stale")
        sub = [n for n in walk_local(fr.node) if isinstance(n, ast.For) and norm(n.iter) == "self.subjects"]
        if not sub or not any(isinstance(x, ast.Attribute) and x.attr == "fresh" for b in sub[0].body for x in ast.walk(b)):
            R.bad(fr, fr.node, "fresh does not refresh the subjects it depends on first", stmt="for other in self.subjects")
        elif not q.dominated(fr, [sub[0]], rc[0]):
            R.bad(fr, rc[0], "_refresh() runs before the subjects were refreshed")
        if not sf or not q.followed(fr, rc[0], sf, exits=[fr.cfg.exit]):
            R.bad(fr, rc[0], "is_fresh is not set after refreshing: every read rebuilds, or never again")
    for r_ in q.returns(fr):
        if norm(r_.value) != "self":
            R.bad(fr, r_, "fresh does not return the object itself")


def q_kw(call, name):
    for k in call.keywords:
        if k.arg == name:
            return k.value
    return None
