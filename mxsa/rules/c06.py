"""C06 - a value edit discards exactly its dependents; inputs persist."""
import ast

from ..framework import rule
from ..astutil import dotted, call_name, call_recv, norm, walk_local, unparse
from .. import q
from .common import graph_ops, assigned_value, kw, arg, enclosing_for

META = {
    "explanation": (
        "Decides the structural clauses behind C06: (R1) who may write input_keys and who may "
        "call on_clear_trace; (R2) namespace/reference invalidation and clear() never pass "
        "clear_input=True, clear_value_at only clears an input when asked to, and the flag is "
        "forwarded unchanged; (R3) in set_value_from_key the recalculation targets are taken "
        "before the element is cleared, clear -> store -> graph node -> input mark happen in "
        "that order on every path, and recomputation runs under the same option test; (R4) "
        "the sets removed from the graphs are full descendant closures that include the "
        "source, and clear_with_descs drops exactly the removed nodes' values."),
    "not_decided": [
        "the exact dependents set on runtime DAGs (that is networkx.descendants, trusted)",
        "values produced by recomputation",
    ],
    "assumptions": ["networkx.descendants returns the transitive closure (trusted library)"],
}

CLOSURE_PRIMS = {"descendants", "dfs_preorder_nodes", "dfs_postorder_nodes", "dfs_tree", "bfs_tree",
                 "single_source_shortest_path", "single_source_shortest_path_length", "dfs_successors",
                 "bfs_successors"}
ONE_STEP = {"successors", "neighbors", "adj", "out_edges", "predecessors"}


@rule("C06.R1", "C06", "WMC", "who writes input_keys; who calls on_clear_trace", min_instances=6, also=("C02",))
def r1(ctx, R):
    """input_keys: added only in CellsImpl.set_value_from_key (top-level branch), removed only
    in on_clear_trace, assigned only in __init__; on_clear_trace is called only by
    TraceManager.clear_with_descs / clear_obj / clear_attr_referrers on removed nodes."""
    adders, removers, assigns = [], [], []
    for f in ctx.repo.all_funcs():
        for c in q.calls(f, recv_endswith="input_keys"):
            nm = call_name(c)
            if nm in ("add", "update"):
                adders.append((f, c))
            elif nm in ("remove", "discard", "clear", "pop", "difference_update", "intersection_update"):
                removers.append((f, c))
        for st, t in q.attr_writes(f, attr="input_keys"):
            assigns.append((f, st))
    R.must(adders and removers and assigns, "input_keys writers not found")
    R.slot("input_keys", {"add": [f.short for f, _ in adders], "remove": [f.short for f, _ in removers],
                          "assign": [f.short for f, _ in assigns]})
    for f, c in adders:
        R.inst("input_keys add in %s" % f.short)
        if f.short != "CellsImpl.set_value_from_key":
            R.bad(f, c, "input mark added outside set_value_from_key")
        elif not q.depends(f, c, lambda e: norm(e) == "self.system.callstack", "F"):
            R.bad(f, c, "input mark added while a formula is executing")
    for f, c in removers:
        R.inst("input_keys removal in %s" % f.short)
        if f.short != "CellsImpl.on_clear_trace":
            R.bad(f, c, "input mark removed outside on_clear_trace: an assigned value can lose its input status")
    for f, st in assigns:
        R.inst("input_keys assignment in %s" % f.short)
        if f.name != "__init__":
            R.bad(f, st, "input_keys re-assigned outside __init__")
    oc = ctx.func("CellsImpl.on_clear_trace")
    R.inst("on_clear_trace deletes data[key] and the input mark of the same key")
    dels = [st for st, t in q.subscript_writes(oc, "data") if isinstance(st, ast.Delete)]
    if not dels or norm(dels[0].targets[0]) != "self.data[key]":
        R.bad(oc, oc.node, "on_clear_trace does not delete data[key]", stmt="del self.data[key]")
    allowed = {"TraceManager.clear_with_descs", "TraceManager.clear_obj", "TraceManager.clear_attr_referrers"}
    n = 0
    for f in ctx.repo.all_funcs():
        for c in q.calls(f, name="on_clear_trace"):
            n += 1
            R.inst("on_clear_trace caller %s" % f.short)
            if f.short == "CallStack.rollback":
                # the failed element only, after its node left the graph (decided by C05.R3)
                if call_recv(c) != "node[]" or [norm(a) for a in c.args] != ["node[KEY]"]:
                    R.bad(f, c, "rollback drops the value of something other than the failed element")
                continue
            if f.short not in allowed:
                R.bad(f, c, "on_clear_trace called outside the TraceManager: data removed without removing graph nodes")
                continue
            # receiver/key are projections of the loop variable over a removed-node set
            loop = enclosing_for(f, c)
            ok = False
            if loop is not None and isinstance(loop.target, ast.Name):
                v = loop.target.id
                if call_recv(c) == "%s[]" % v and c.args and norm(c.args[0]) == "%s[KEY]" % v:
                    srcs = assigned_value(f, loop.iter.id) if isinstance(loop.iter, ast.Name) else [loop.iter]
                    ok = bool(srcs) and all(
                        isinstance(s, ast.Call) and call_name(s) in ("remove_with_descs", "clear_obj")
                        and (call_recv(s) or "").endswith("tracegraph") for s in srcs)
            if not ok:
                R.bad(f, c, "on_clear_trace is applied to nodes that were not just removed from the trace graph")
    R.need(n >= 3, "expected >=3 on_clear_trace call sites, found %d" % n)


@rule("C06.R2", "C06", "CONST", "inputs survive clear(), namespace and reference invalidation", min_instances=9)
def r2(ctx, R):
    """clear_all_values reachable from on_namespace_change and Cells.clear passes
    clear_input=False; clear_value_at clears an input only if clear_input; the flag is
    forwarded unchanged by clear_all_values / clear_all_cells; defaults are False."""
    for spec in ("CellsImpl.on_namespace_change", "Cells.clear"):
        fi = ctx.func(spec)
        cs = q.calls(fi, name="clear_all_values")
        R.inst("%s: clear_all_values(clear_input=False)" % spec)
        if not cs:
            R.bad(fi, fi.node, "%s no longer clears the calculated values" % spec, stmt="clear_all_values")
        for c in cs:
            a = arg(c, 0, "clear_input")
            if not (isinstance(a, ast.Constant) and a.value is False):
                R.bad(fi, c, "%s clears input values (clear_input is not False)" % spec)
    fi = ctx.func("Cells.clear_all")
    R.inst("Cells.clear_all: clear_all_values(clear_input=True)")
    cs = q.calls(fi, name="clear_all_values")
    if not cs or not all(isinstance(arg(c, 0, "clear_input"), ast.Constant) and arg(c, 0, "clear_input").value is True for c in cs):
        R.bad(fi, fi.node, "clear_all does not clear inputs", stmt="clear_all_values")
    cv = ctx.func("CellsImpl.clear_value_at")
    cw = q.calls(cv, name="clear_with_descs")
    R.inst("clear_value_at: clear only if clear_input or key is not an input")
    if len(cw) != 1:
        R.bad(cv, cv.node, "clear_value_at does not clear through clear_with_descs exactly once", stmt="clear_with_descs")
    else:
        # decide the guard as a truth table over (clear_input, key is an input)
        def outcome_for(ci, is_input):
            def oc(e):
                t = norm(e)
                if t == "clear_input":
                    return "T" if ci else "F"
                if t == "key not in self.input_keys":
                    return "F" if is_input else "T"
                if t == "key in self.input_keys":
                    return "T" if is_input else "F"
                if "has_node" in t:
                    return "T"
                return None
            return oc
        table = {}
        for ci in (True, False):
            for inp in (True, False):
                table[(ci, inp)] = q.reached_under(cv, cw[0], outcome_for(ci, inp))
        R.slot("clear_value_at_truth_table(clear_input,is_input)->cleared",
               {"%s,%s" % k: v for k, v in table.items()})
        want = {(True, True): True, (True, False): True, (False, True): False, (False, False): True}
        for k, v in want.items():
            if table[k] != v:
                R.bad(cv, cw[0], "clear_value_at(clear_input=%s) on %s: cleared=%s, required %s"
                      % (k[0], "an input" if k[1] else "a calculated value", table[k], v),
                      stmt="guard %s,%s" % k)
        a = q.origin(cv, cw[0].args[0]) if cw[0].args else None
        R.inst("clear_value_at clears exactly the element's own node")
        if not (isinstance(a, ast.Call) and call_name(a) == "key_to_node" and [norm(x) for x in a.args] == ["self", "key"]):
            R.bad(cv, cw[0], "clear_value_at does not clear (self, key)")
        if not q.depends(cv, cw[0], lambda e: q.mentions_call(e, "has_node"), "T"):
            R.bad(cv, cw[0], "clear_with_descs is called for elements that hold no value")
    R.inst("clear_value_at default clear_input=True (explicit clear_at / overwrite replaces an input)")
    d = cv.node.args.defaults
    if not (d and isinstance(d[-1], ast.Constant) and d[-1].value is True):
        R.bad(cv, cv.node, "default of clear_input changed", stmt="default")
    ca = ctx.func("CellsImpl.clear_all_values")
    R.inst("clear_all_values forwards clear_input unchanged for every held key")
    cs = q.calls(ca, name="clear_value_at")
    if not cs or [norm(a) for a in cs[0].args] != ["key", "clear_input"] and norm(kw(cs[0], "clear_input") or ast.Constant(0)) != "clear_input":
        R.bad(ca, ca.node, "clear_all_values does not forward clear_input to clear_value_at", stmt="clear_value_at")
    else:
        loop = enclosing_for(ca, cs[0])
        if loop is None or "self.data" not in q.rnorm(ca, loop.iter):
            R.bad(ca, cs[0], "clear_all_values does not iterate over all held keys")
    cc = ctx.func("BaseSpaceImpl.clear_all_cells")
    R.inst("clear_all_cells forwards clear_input, default False")
    for c in q.calls(cc, name=("clear_all_values", "clear_all_cells")):
        a = kw(c, "clear_input") or (c.args[0] if c.args else None)
        if a is None or norm(a) != "clear_input":
            R.bad(cc, c, "clear_input is not forwarded unchanged")
    names = [x.arg for x in cc.node.args.args]
    dflt = dict(zip(reversed(names), reversed(cc.node.args.defaults)))
    if not (isinstance(dflt.get("clear_input"), ast.Constant) and dflt["clear_input"].value is False):
        R.bad(cc, cc.node, "clear_all_cells default clear_input is not False", stmt="default")
    bc = ctx.func("BaseSpace.clear_cells")
    R.inst("BaseSpace.clear_cells default clear_input=False and forwarded")
    names = [x.arg for x in bc.node.args.args]
    dflt = dict(zip(reversed(names), reversed(bc.node.args.defaults)))
    if not (isinstance(dflt.get("clear_input"), ast.Constant) and dflt["clear_input"].value is False):
        R.bad(bc, bc.node, "clear_cells default clear_input is not False", stmt="default")
    for c in q.calls(bc, name="clear_all_cells"):
        a = kw(c, "clear_input")
        if a is None or norm(a) != "clear_input":
            R.bad(bc, c, "clear_input is not forwarded unchanged")


@rule("C06.R3", "C06", "DOM", "edit order in set_value_from_key: targets, clear, store, node, input, recompute",
      min_instances=7, also=("C05", "C08",))
def r3(ctx, R):
    """Top-level branch of CellsImpl.set_value_from_key: get_startnodes_from(node) (under the
    recalc option) precedes clear_value_at(key), which dominates _store_value(key, value),
    which dominates tracegraph.add_node(node) and input_keys.add(key), which dominate the
    recalculation loop guarded by the same option; the in-formula branch stores only for the
    executing node, else raises."""
    fi = ctx.func("CellsImpl.set_value_from_key")
    cfg = fi.cfg
    top = lambda n: q.depends(fi, n, lambda e: norm(e) == "self.system.callstack", "F")
    starts = q.calls(fi, name="get_startnodes_from")
    clears = [c for c in q.calls(fi, name="clear_value_at") if top(c)]
    stores = [c for c in q.calls(fi, name="_store_value") if top(c)]
    addn = [c for c, k, nm in graph_ops(fi, ("add_node",)) if k == "trace"]
    marks = q.calls(fi, name="add", recv_endswith="input_keys")
    loops = [n for n in walk_local(fi.node) if isinstance(n, ast.For)]
    R.slot("set_value_from_key", {"targets": [norm(s) for s in starts], "clear": [norm(c) for c in clears],
                                  "store": [norm(s) for s in stores], "node": [norm(a) for a in addn],
                                  "mark": [norm(m) for m in marks]})
    R.inst("node is key_to_node(self, key)")
    nv = assigned_value(fi, "node")
    if not (len(nv) == 1 and isinstance(nv[0], ast.Call) and call_name(nv[0]) == "key_to_node"
            and [norm(a) for a in nv[0].args] == ["self", "key"]):
        R.bad(fi, fi.node, "node is not (self, key)", stmt="node =")
    R.inst("top-level: element cleared (with dependents) before the new value is stored")
    if len(clears) != 1 or len(stores) != 1:
        R.bad(fi, fi.node, "top-level branch must clear once and store once (clear=%d store=%d)"
              % (len(clears), len(stores)), stmt="clear/store")
        return
    cl, stv = clears[0], stores[0]
    if [norm(a) for a in cl.args] != ["key"] or cl.keywords:
        R.bad(fi, cl, "the assigned element is not cleared with clear_value_at(key) (inputs must be replaced too)")
    if [norm(a) for a in stv.args] != ["key", "value"]:
        R.bad(fi, stv, "stored (key, value) are not the ones assigned")
    if not q.dominated(fi, [cl], stv):
        R.bad(fi, stv, "value stored without first discarding the old element and its dependents")
    if q.path_between(fi, stv, cl):
        R.bad(fi, cl, "element cleared after the new value was stored: the assigned value is lost")
    R.inst("top-level: store dominates graph node and input mark")
    if len(addn) != 1 or norm(addn[0].args[0]) != "node":
        R.bad(fi, fi.node, "assigned element is not added to the trace graph as `node`", stmt="add_node(node)")
    else:
        # does a pre-check refuse None before anything is touched?  then _store_value cannot reject here
        pre = [r_ for r_ in q.raises(fi, "NoneReturnedError")
               if ("value is None", "T") in q.guards_of(fi, r_) and ("self.get_property('allow_none')", "F") in q.guards_of(fi, r_)
               and not q.path_between(fi, cl, r_)]
        R.slot("none_precheck", bool(pre))
        if not pre and not q.dominated(fi, [stv], addn[0]):
            R.bad(fi, addn[0], "graph node added before storing and the store can still reject None: a rejected "
                               "assignment leaves a node without value")
        if not (q.followed(fi, stv, [addn[0]], exits=[cfg.exit]) or q.dominated(fi, [addn[0]], stv)):
            R.bad(fi, stv, "a stored input does not get its graph node")
        if not q.dominated(fi, [cl], addn[0]):
            R.bad(fi, addn[0], "graph node added before the old element was cleared (clearing removes it again)")
    if len(marks) != 1 or [norm(a) for a in marks[0].args] != ["key"]:
        R.bad(fi, fi.node, "assigned element is not marked as input", stmt="input_keys.add(key)")
    else:
        if not q.dominated(fi, [stv], marks[0]):
            R.bad(fi, marks[0], "input mark set before/without storing")
        if not q.followed(fi, stv, [marks[0]], exits=[cfg.exit]):
            R.bad(fi, stv, "a stored input is not marked as input")
    R.inst("recalculation targets are computed before clearing, under the option")
    opt = lambda e: norm(e) == "self.system._recalc_dependents"
    if len(starts) != 1:
        R.bad(fi, fi.node, "recalculation targets are not computed exactly once", stmt="get_startnodes_from")
    else:
        s = starts[0]
        if q.path_between(fi, cl, s):
            R.bad(fi, s, "recalculation targets are looked up after the dependents were already removed")
        if not q.depends(fi, s, opt, "T"):
            R.bad(fi, s, "targets computed although recalculation is off")
        if [norm(a) for a in s.args] != ["node"]:
            R.bad(fi, s, "targets are not the leaves reachable from the edited node")
    R.inst("recalculation loop runs after store/mark, under the same option, over the targets")
    rl = [l for l in loops if q.calls_in_body(l, "get_value_from_key")] if hasattr(q, "calls_in_body") else \
        [l for l in loops if any(isinstance(c, ast.Call) and call_name(c) == "get_value_from_key" for b in l.body for c in ast.walk(b))]
    if len(rl) != 1:
        R.bad(fi, fi.node, "recalculation loop missing", stmt="for trg in targets")
    else:
        l = rl[0]
        tv = starts[0].func and enclosing_target(fi, starts[0]) if starts else None
        if not q.depends(fi, l, opt, "T"):
            R.bad(fi, l, "dependents are recomputed although the option is off")
        if not (isinstance(l.iter, ast.Name) and tv == l.iter.id):
            R.bad(fi, l, "recalculation does not iterate over the computed targets")
        if marks and not q.dominated(fi, [stv], l):
            R.bad(fi, l, "dependents are recomputed before the new value is in place")
        for what, cs in (("marked as input", marks), ("given its graph node", addn)):
            if cs and not q.dominated(fi, [cs[0]], l):
                R.bad(fi, l, "dependents are recomputed before the assigned value is %s: when a dependent raises on the "
                             "new value the assignment stays but is no longer an input, and clear() or a reference "
                             "change discards it" % what, stmt="recalc before " + what)
        c = [c for b in l.body for c in ast.walk(b) if isinstance(c, ast.Call) and call_name(c) == "get_value_from_key"][0]
        v = norm(l.target)
        if call_recv(c) != "%s[]" % v or [norm(a) for a in c.args] != ["%s[KEY]" % v]:
            R.bad(fi, c, "recalculation does not evaluate the target element itself")
        # option test exists on the false side too: lazy mode must not recompute
        for t in q.test_nodes(fi, opt):
            pass
    R.inst("in-formula branch: store only for the executing node, else KeyError")
    inner = [c for c in q.calls(fi, name="_store_value") if not top(c)]
    if len(inner) != 1:
        R.bad(fi, fi.node, "in-formula assignment branch changed", stmt="in-formula store")
    else:
        if not q.depends(fi, inner[0], lambda e: norm(e) in ("node == self.system.callstack[-1]",
                                                            "self.system.callstack[-1] == node"), "T"):
            R.bad(fi, inner[0], "a formula can assign to an element other than the one executing")
        rs = q.raises(fi, "KeyError")
        if not rs or not q.depends(fi, rs[0], lambda e: norm(e) in ("node == self.system.callstack[-1]",
                                                                    "self.system.callstack[-1] == node"), "F"):
            R.bad(fi, fi.node, "assignment to a foreign element inside a formula is not rejected", stmt="raise KeyError")
        for x in clears + addn + marks:
            if not top(x):
                R.bad(fi, x, "input bookkeeping runs inside a formula")
    en = ctx.func("NonThreadedExecutor.eval_node")
    R.inst("eval_node serves a held (assigned) value by membership, whatever the value is")
    hn = [n for n in en.cfg.nodes if n.kind == "test" and q.mentions_call(n.ast, "has_node")]
    if len(hn) != 1:
        R.bad(en, en.node, "a held value is not recognised by membership: an assigned None/falsy input is recomputed "
                           "from the formula and overwritten", stmt="hit test")
    sv = ctx.func("CellsImpl.set_value")
    R.inst("set_value -> set_value_from_key(get_node(self, args, {})[KEY], value)")
    c = q.calls(sv, name="set_value_from_key")
    if len(c) != 1 or norm(c[0].args[1]) != "value":
        R.bad(sv, sv.node, "set_value does not forward to set_value_from_key(key, value)", stmt="set_value_from_key")


def enclosing_target(fi, call):
    pm = fi.pm
    st = pm.get(call)
    if isinstance(st, ast.Assign) and len(st.targets) == 1 and isinstance(st.targets[0], ast.Name):
        return st.targets[0].id
    return None


def _closure_source(fi, expr, depth=0):
    """Classify how `expr` (a set of nodes) was obtained: 'closure' | 'one-step' | 'unknown'."""
    if isinstance(expr, ast.Call):
        nm = call_name(expr)
        if nm in CLOSURE_PRIMS:
            return "closure"
        if nm in ONE_STEP:
            return "one-step"
        if nm in ("set", "list", "tuple", "sorted") and expr.args:
            return _closure_source(fi, expr.args[0], depth)
    if isinstance(expr, (ast.Tuple, ast.List, ast.Set)):
        kinds = [_closure_source(fi, e.value if isinstance(e, ast.Starred) else e, depth) for e in expr.elts]
        if "closure" in kinds:
            return "closure"
        if "one-step" in kinds:
            return "one-step"
    if isinstance(expr, (ast.ListComp, ast.SetComp, ast.GeneratorExp)):
        return _closure_source(fi, expr.generators[0].iter, depth)
    if isinstance(expr, ast.Name) and depth < 3:
        vals = assigned_value(fi, expr.id)
        kinds = [_closure_source(fi, v, depth + 1) for v in vals]
        if kinds and all(k == "closure" for k in kinds):
            return "closure"
        if "one-step" in kinds:
            return "one-step"
    return "unknown"


@rule("C06.R4", "C06", "FLOW", "removed sets are full descendant closures including the source", min_instances=8, also=("C09", "C13"))
def r4(ctx, R):
    """TraceGraph.remove_with_descs / ReferenceGraph.remove_with_descs remove source plus a
    transitive-closure set; get_startnodes_from filters the same closure by out-degree 0;
    TraceManager.clear_* drop exactly the removed nodes' values and reference edges."""
    for spec, src in (("TraceGraph.remove_with_descs", "source"), ("ReferenceGraph.remove_with_descs", "ref")):
        fi = ctx.func(spec)
        rm = q.calls(fi, name="remove_nodes_from", recv="self")
        R.inst("%s removes a closure set" % spec)
        if len(rm) != 1:
            R.bad(fi, fi.node, "does not remove nodes exactly once", stmt="remove_nodes_from")
            continue
        a = rm[0].args[0]
        kind = _closure_source(fi, a)
        if kind == "one-step":
            R.bad(fi, rm[0], "only direct successors are removed (one level too little): transitive dependents keep stale values")
        elif kind != "closure":
            from ..index import AnalysisError
            raise AnalysisError("C06.R4: unrecognised shape of removed set in %s: %s" % (spec, norm(a)))
        # closure is taken over self from the source
        prim = [c for c in q.calls(fi) if call_name(c) in CLOSURE_PRIMS]
        if prim and [norm(x) for x in prim[0].args[:2]] != ["self", src]:
            R.bad(fi, prim[0], "closure is not computed over this graph from the given source")
        R.inst("%s: the source itself is removed too" % spec)
        incl = False
        if isinstance(a, ast.Name):
            for c in q.calls(fi, name="add", recv=a.id):
                if norm(c.args[0]) == src and q.dominated(fi, [c], rm[0]):
                    incl = True
        if isinstance(a, (ast.Tuple, ast.List, ast.Set)) and any(norm(e) == src for e in a.elts):
            incl = True
        if not incl:
            R.bad(fi, rm[0], "the edited node itself is not removed from the graph")
        R.inst("%s: returns the removed set" % spec)
        rets = [r_ for r_ in q.returns(fi) if not (isinstance(r_.value, ast.Call) and norm(r_.value) == "set()")]
        if not rets or any(_closure_source(fi, r_.value) != "closure" for r_ in rets):
            R.bad(fi, fi.node, "does not return the removed nodes: their values would stay in data", stmt="return")
    tr = ctx.func("TraceGraph.remove_with_descs")
    R.inst("TraceGraph.remove_with_descs returns a set that includes the source")
    for r_ in q.returns(tr):
        if isinstance(r_.value, ast.Name):
            added = [c for c in q.calls(tr, name="add", recv=r_.value.id) if norm(c.args[0]) == "source"]
            if not added or not q.dominated(tr, added, r_):
                R.bad(tr, r_, "returned set lacks the source: the edited element keeps its old value")
    gs = ctx.func("TraceGraph.get_startnodes_from")
    R.inst("get_startnodes_from: leaves (out_degree == 0) of the descendant closure")
    comps = [n for n in walk_local(gs.node) if isinstance(n, ast.ListComp)]
    ok = False
    for lc in comps:
        g = lc.generators[0]
        if _closure_source(gs, g.iter) == "closure" and g.ifs and norm(g.ifs[0]) in (
                "self.out_degree(%s) == 0" % norm(g.target), "not self.out_degree(%s)" % norm(g.target)) \
                and norm(lc.elt) == norm(g.target):
            ok = True
    if not ok:
        R.bad(gs, gs.node, "recalculation targets are not the out-degree-0 nodes of the descendant closure", stmt="listcomp")
    tc = ctx.func("TraceGraph.clear_obj")
    R.inst("TraceGraph.clear_obj: removes closure of every node of the object and returns the union")
    if not q.calls(tc, name="get_nodes_with") or not q.calls(tc, name="remove_with_descs") \
            or not q.calls(tc, name="update"):
        R.bad(tc, tc.node, "clear_obj does not remove the closure of every node of the object", stmt="clear_obj")
    gn = ctx.func("TraceGraph.get_nodes_with")
    R.inst("get_nodes_with matches node[OBJ] == obj (both node forms)")
    adds = q.calls(gn, name="add", recv="result")
    okg = False
    if len(adds) == 1 and [norm(a) for a in adds[0].args] == ["node"]:
        g = {t for t in q.guards_of(gn, adds[0]) if "__version__" not in t[0]}
        okg = g in ({("node[OBJ] == obj", "T")}, {("node[OBJ] is obj", "T")}, {("obj == node[OBJ]", "T")},
                    {("obj is node[OBJ]", "T")})
    if not okg:
        R.bad(gn, gn.node, "nodes of an object are not selected by exactly `node[OBJ] == obj` "
                           "(object nodes of uncached cells must be included)", stmt="node[OBJ] == obj")
    # TraceManager
    for spec, prim in (("TraceManager.clear_with_descs", "remove_with_descs"), ("TraceManager.clear_obj", "clear_obj")):
        fi = ctx.func(spec)
        c1 = [c for c in q.calls(fi, name=prim) if (call_recv(c) or "").endswith("tracegraph")]
        c2 = [c for c in q.calls(fi, name="remove_with_referred") if (call_recv(c) or "").endswith("refgraph")]
        R.inst("%s: tracegraph.%s -> refgraph.remove_with_referred(removed) -> on_clear_trace" % (spec, prim))
        if len(c1) != 1:
            R.bad(fi, fi.node, "does not remove nodes through tracegraph.%s" % prim, stmt=prim)
            continue
        var = enclosing_target(fi, c1[0])
        if not c2 or [norm(a) for a in c2[0].args] != [var]:
            R.bad(fi, fi.node, "reference edges of the removed nodes are not dropped", stmt="remove_with_referred")
        oc = q.calls(fi, name="on_clear_trace")
        if not oc:
            R.bad(fi, fi.node, "values of removed nodes are not dropped", stmt="on_clear_trace")
    ca = ctx.func("TraceManager.clear_attr_referrers")
    R.inst("clear_attr_referrers: like its siblings, drops the reference edges of every trace node it removes")
    tr_ = [c for c in q.calls(ca, name="remove_with_descs") if (call_recv(c) or "").endswith("tracegraph")]
    rw = q.calls(ca, name="remove_with_referred")
    if not tr_ or not rw or not any(q.origin(ca, c.args[0]) is tr_[0] for c in rw if c.args) or \
            (enclosing_for(ca, rw[0]) is not enclosing_for(ca, tr_[0])):
        R.bad(ca, ca.node, "elements cleared as dependents of a reference reader keep their other reference edges: "
                           "precedents() lists references the new formula never read", stmt="remove_with_referred(descs)")
    R.inst("clear_attr_referrers: every referrer's closure is removed and its values dropped")
    c1 = [c for c in q.calls(ca, name="remove_with_descs") if (call_recv(c) or "").endswith("refgraph")]
    c2 = [c for c in q.calls(ca, name="remove_with_descs") if (call_recv(c) or "").endswith("tracegraph")]
    if len(c1) != 1 or len(c2) != 1 or not q.calls(ca, name="on_clear_trace"):
        R.bad(ca, ca.node, "clear_attr_referrers no longer removes referrers with their descendants", stmt="clear_attr_referrers")
    else:
        if [norm(a) for a in c1[0].args] != ["ref"]:
            R.bad(ca, c1[0], "referrers are looked up for something other than the changed reference")
        lp = enclosing_for(ca, c2[0])
        v1 = enclosing_target(ca, c1[0])
        if lp is None or q.origin(ca, lp.iter) is not c1[0] or [norm(a) for a in c2[0].args] != [norm(lp.target)]:
            R.bad(ca, c2[0], "not every referrer node is cleared")
