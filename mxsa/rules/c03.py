"""C03 - derived members equal re-derivation from defined members along the C3 order."""
import ast

from ..framework import rule
from ..astutil import dotted, call_name, call_recv, norm, walk_local, unparse, ancestors
from ..index import AnalysisError
from .. import q
from .common import assigned_value, kw, arg, enclosing_for

META = {
    "explanation": (
        "Decides the structural clauses behind C03: (R1) every place that copies from 'the' base "
        "uses index 0 of a list that comes from the MRO in order; (R2) loops over the sub spaces "
        "(a topological order of a DAG, not a chain) never break; (R3) the guards of the five "
        "propagation loops are interpreted over the finite set of abstract situations of one sub "
        "space (has the member / it is defined / its first definer is the edited one) and "
        "compared with what re-derivation from scratch requires; (R4) every operation that "
        "edits members or base edges schedules re-derivation of every descendant, for cells and "
        "references, and on_inherit creates, updates and deletes derived members."),
    "not_decided": [
        "that SpaceGraph.get_mro computes the C3 linearisation (algorithmic; `bases` reports what it returns)",
    ],
    "assumptions": [],
}

SUB_SOURCES = ("_get_subs", "ordered_subs")


def _sub_loops(fi):
    return [n for n in walk_local(fi.node) if isinstance(n, ast.For) and isinstance(n.iter, ast.Call)
            and call_name(n.iter) in SUB_SOURCES]


@rule("C03.R1", "C03", "TABLE", "first definer = index 0 of an MRO-ordered list", min_instances=10, also=("C11",))
def r1(ctx, R):
    """Constant subscripts on bases / bs / defined_bases / direct_bases / get_deriv_bases(...)
    are 0; the lists come from get_mro(...)[1:] without reordering; edges get increasing
    indices and ordered_preds sorts by them."""
    n = 0
    names = ("bases", "bs", "defined_bases", "direct_bases")
    for f in ctx.repo.all_funcs(modules=["modelx.core"]):
        for x in walk_local(f.node):
            if isinstance(x, ast.Subscript) and isinstance(x.slice, (ast.Constant, ast.UnaryOp)) and isinstance(x.ctx, ast.Load):
                base = x.value
                key = None
                if isinstance(base, ast.Name) and base.id in names:
                    key = base.id
                elif isinstance(base, ast.Attribute) and base.attr in names:
                    key = norm(base)
                elif isinstance(base, ast.Call) and call_name(base) == "get_deriv_bases":
                    key = "get_deriv_bases()"
                if key is None or f.short in ("get_mixin_slots",) or (f.cls is not None and f.cls.name in ("ModelWriter",)):
                    continue
                par = f.pm.get(x)
                if isinstance(par, ast.Attribute) and par.attr == "refmode" and f.short == "UserSpaceImpl.on_inherit":
                    continue    # initial mode of a new derived reference: overwritten at once by ReferenceImpl.on_inherit (C10.R2)
                if key == "bases" and f.short in ("get_mixin_slots", "ItemSpaceParent.on_eval_formula"):
                    continue
                n += 1
                R.inst("%s: `%s`" % (f.short, norm(x)))
                if norm(x.slice) != "0":
                    R.bad(f, x, "member is copied from base `%s`, not from the first one in the MRO" % norm(x.slice))
    R.need(n >= 8, "expected >=8 first-base subscripts, found %d" % n)
    gb = ctx.func("SharedSpaceOperations._get_space_bases")
    R.inst("_get_space_bases = [to_space(n) for n in get_mro(idstr)[idx:]] in order")
    nv = assigned_value(gb, "nodes")
    rr = q.returns(gb)
    if not nv or norm(nv[0]) != "self._graph.get_mro(space.idstr)[idx:]" or len(rr) != 1 or \
            norm(rr[0].value) != "[self._graph.to_space(n) for n in nodes]":
        R.bad(gb, gb.node, "space bases are not the MRO in order", stmt="_get_space_bases")
    iv = assigned_value(gb, "idx")
    if not iv or norm(iv[0]) != "1 if skip_self else 0":
        R.bad(gb, gb.node, "the space itself is not skipped by position", stmt="idx")
    gd = ctx.func("SharedSpaceOperations.get_deriv_bases")
    R.inst("get_deriv_bases walks get_mro(parent)[1:] in order, appending members of that name")
    lp = [x for x in walk_local(gd.node) if isinstance(x, ast.For)]
    if not lp or q.anorm(gd, lp[0].iter) != "graph.get_mro(deriv.parent.idstr)[1:]" or not q.calls(gd, name="append", recv="bases"):
        R.bad(gd, gd.node, "bases of a derived member are not collected along the MRO", stmt="for bspace in get_mro")
    else:
        ap = q.calls(gd, name="append", recv="bases")[0]
        g = q.guards_of(gd, ap)
        tests_in_loop = {norm(n_.ast) for n_ in gd.cfg.nodes if n_.kind == "test" and n_.ast is not None
                         and any(a is lp[0] for a in ancestors(gd.pm, n_.ast))}
        if ("deriv.name in base_members", "T") not in g or tests_in_loop != {"deriv.name in base_members", "defined_only", "b.is_defined()"}:
            R.bad(gd, ap, "bases are not filtered by name / defined-ness only: %s" % sorted(tests_in_loop))
        else:
            for do, bd, want in ((False, False, True), (True, False, False), (True, True, True)):
                r_ = q.run_abstract(gd, lambda e: {"deriv.name in base_members": "T", "defined_only": "T" if do else "F",
                                                   "b.is_defined()": "T" if bd else "F"}.get(norm(e)))
                got = any(i in r_ for i in q.nodes_for(gd, ap))
                if got != want:
                    R.bad(gd, ap, "defined_only=%s, base defined=%s: included=%s" % (do, bd, got), stmt="filter %s %s" % (do, bd))
    for f_ in (gb, gd):
        for c in q.calls(f_, name=("reversed", "sorted", "sort", "reverse")):
            R.bad(f_, c, "MRO order is changed before the first base is taken")
    op = ctx.func("SpaceGraph.ordered_preds")
    R.inst("ordered_preds sorts incoming edges by their index")
    if "sorted(edges, key=lambda elm: elm[0])" not in " ".join(norm(r_.value) for r_ in q.returns(op)):
        R.bad(op, op.node, "direct bases are not ordered by edge index", stmt="sorted")
    mi = ctx.func("SpaceGraph.max_index")
    R.inst("max_index = max of the `index` attribute over the incoming edges (not their number)")
    okm = False
    for r_ in q.returns(mi):
        v = q.resolve(mi, r_.value)
        for c in ast.walk(v) if v is not None else ():
            if isinstance(c, ast.Call) and norm(c.func) == "max" and c.args:
                comp = q.origin(mi, c.args[0])
                if isinstance(comp, (ast.ListComp, ast.GeneratorExp, ast.SetComp)) and len(comp.generators) == 1:
                    it = comp.generators[0].iter
                    reads_index = any(isinstance(x, ast.Subscript) and isinstance(x.slice, ast.Constant)
                                      and x.slice.value == "index" for x in ast.walk(comp.elt))
                    if reads_index and isinstance(it, ast.Call) and call_name(it) == "in_edges" and it.args \
                            and norm(it.args[0]) == "node" and not comp.generators[0].ifs:
                        okm = True
    if not okm:
        R.bad(mi, mi.node, "the next base index is not derived from the highest index in use: after a base was removed "
                           "a new base can get an index that is already taken and the base order is no longer the order "
                           "in which the bases were given", stmt="max_index")
    for spec in ("SpaceUpdater.new_space", "SpaceUpdater.add_bases"):
        fi = ctx.func(spec)
        ae = [c for c in q.calls(fi, name="add_edge") if kw(c, "index") is not None]
        R.inst("%s: new base edges get index max_index(node) + 1" % spec)
        nd = "node" if spec.endswith("new_space") else "space.idstr"     # canonical spelling of the edited node
        if not ae or q.anorm(fi, kw(ae[0], "index")) != "self._graph.max_index(%s) + 1" % nd:
            R.bad(fi, fi.node, "a new base does not come after the existing ones", stmt="index=")
        elif [q.anorm(fi, a) for a in ae[0].args[:2]] not in (["b.idstr", nd], ["b", nd]):
            R.bad(fi, ae[0], "edge direction is not base -> sub")
    ui = ctx.func("UserSpaceImpl.on_inherit")
    R.inst("UserSpaceImpl.on_inherit: bs = defined members of that name in map (MRO) order")
    bv = assigned_value(ui, "bs")
    if not bv or norm(bv[0]) != "[bm[name] for bm in basedict.maps if name in bm and bm[name].is_defined()]":
        R.bad(ui, ui.node, "candidate bases are not the defined members in MRO order", stmt="bs =")
    dv = assigned_value(ui, "basedict")
    if not dv or norm(dv[0]) != "CustomChainMap(*[getattr(b, attr) for b in bases])":
        R.bad(ui, ui.node, "base members are not chained in the order of the bases", stmt="basedict =")
    bb = ctx.func("BaseSpace.bases")
    R.inst("BaseSpace.bases reports the impl's bases unreordered")
    rr = q.returns(bb)
    if len(rr) != 1 or norm(rr[0].value) != "get_interface_list(self._impl.bases)":
        R.bad(bb, bb.node, "`bases` does not report the linearisation as computed", stmt="return")
    R.inst("get_mro raises for an inconsistent hierarchy")
    gm = ctx.func("SpaceGraph.get_mro")
    if not q.raises(gm, "TypeError"):
        R.bad(gm, gm.node, "inconsistent hierarchies are not refused", stmt="raise TypeError")
    R.inst("get_mro merges the linearisations of the direct bases AND the list of direct bases itself (local precedence)")
    sv = assigned_value(gm, "seqs")
    DIRECT = "self.ordered_preds(node)"

    def _flat(e):
        if isinstance(e, ast.BinOp) and isinstance(e.op, ast.Add):
            return _flat(e.left) + _flat(e.right)
        return [e]
    parts = _flat(sv[0]) if len(sv) == 1 else []
    # elements appended before the merge loop starts (straight-line code only)
    for c_ in q.calls(gm, name="append", recv="seqs"):
        if enclosing_for(gm, c_) is None and c_.args:
            parts.append(ast.List(elts=[c_.args[0]], ctx=ast.Load()))
    okm = len(parts) == 2 and isinstance(parts[0], ast.ListComp) and len(parts[0].generators) == 1 \
        and not parts[0].generators[0].ifs and q.rnorm(gm, parts[0].generators[0].iter) == DIRECT \
        and norm(parts[0].elt) == "self.get_mro(%s)" % norm(parts[0].generators[0].target) \
        and isinstance(parts[1], ast.List) and len(parts[1].elts) == 1 and q.rnorm(gm, parts[1].elts[0]) == DIRECT
    if not okm:
        R.bad(gm, gm.node, "the order of a space's own direct bases is not one of the merged sequences: with three or more "
                           "bases the linearisation (and `bases`) can put a later base before an earlier one",
              stmt="seqs = [mro(b) for b in bases] + [bases]")
    R.inst("get_mro: a candidate is rejected when it occurs in the tail of any sequence; the node comes first")
    nh = assigned_value(gm, "not_head")
    if not nh or norm(nh[0]) != "[s for s in non_empty if candidate in s[1:]]":
        R.bad(gm, gm.node, "merge candidate test changed", stmt="not_head")
    if not q.calls(gm, name="insert", recv="res") or [norm(a) for a in q.calls(gm, name="insert", recv="res")[0].args] != ["0", "node"]:
        R.bad(gm, gm.node, "the space itself does not head its linearisation", stmt="res.insert(0, node)")
    cv = assigned_value(gm, "candidate")
    if "seq[0]" not in [norm(v) for v in cv]:
        R.bad(gm, gm.node, "merge candidates are not the heads of the sequences", stmt="candidate = seq[0]")


@rule("C03.R2", "C03", "STRUCT", "loops over sub spaces never break", min_instances=7)
def r2(ctx, R):
    """A `for` over _get_subs(...) / ordered_subs(...) contains no `break` that leaves it."""
    n = 0
    for f in ctx.repo.all_funcs(modules=["modelx.core"]):
        for lp in _sub_loops(f):
            n += 1
            R.inst("%s: `%s`" % (f.short, norm(lp)))
            for b in ast.walk(lp):
                if isinstance(b, ast.Break):
                    inner = enclosing_for(f, b)
                    if inner is lp:
                        R.bad(f, b, "propagation over the sub spaces stops at the first sub that needs no update: the subs "
                                    "form a DAG, unrelated siblings are skipped", stmt="break in `%s`" % norm(lp))
                if isinstance(b, ast.Return) and f.short not in ("SharedSpaceOperations._find_name_in_subs",):
                    R.bad(f, b, "propagation over the sub spaces returns early", stmt="return in `%s`" % norm(lp))
    R.need(n >= 7, "expected >=7 loops over sub spaces, found %d" % n)


def _case_run(fi, preds):
    """Abstract run of fi under the predicate valuation `preds` (text -> bool | callable)."""
    def oc(e):
        t = norm(e)
        if t in preds:
            v = preds[t]
            return None if v is None else ("T" if v else "F")
        return None
    return q.run_abstract(fi, oc)


def _atom(e, table):
    """-> (fact name, polarity) for a test operand that is one of the table's atoms in any spelling
    (`a is b` / `b is a` / `a is not b` / `not ...` / is_defined() vs is_derived()), else None.
    table: {("is", x, y): fact, ("call", text): fact, ("ncall", text): fact (negated)}"""
    pol = True
    while isinstance(e, ast.UnaryOp) and isinstance(e.op, ast.Not):
        e, pol = e.operand, not pol
    if isinstance(e, ast.Compare) and len(e.ops) == 1:
        a, b, op = norm(e.left), norm(e.comparators[0]), e.ops[0]
        if isinstance(op, (ast.Is, ast.IsNot, ast.Eq, ast.NotEq)):
            f = table.get(("is", a, b)) or table.get(("is", b, a))
            if f is not None:
                return f, pol == isinstance(op, (ast.Is, ast.Eq))
        if isinstance(op, (ast.In, ast.NotIn)):
            f = table.get(("in", a, b))
            if f is not None:
                return f, pol == isinstance(op, ast.In)
    t = norm(e)
    if ("call", t) in table:
        return table[("call", t)], pol
    if ("ncall", t) in table:
        return table[("ncall", t)], not pol
    return None


def _case_run_atoms(fi, table, facts):
    def oc(e):
        a = _atom(e, table)
        if a is None or facts.get(a[0]) is None:
            return None
        return "T" if facts[a[0]] == a[1] else "F"
    return q.run_abstract(fi, oc)


def _known_atoms(fi, loop, table, R):
    for n in fi.cfg.nodes:
        if n.kind == "test" and n.ast is not None and any(a is loop for a in ancestors(fi.pm, n.ast)):
            t = norm(n.ast)
            if _atom(n.ast, table) is None:
                if ".bases[0] is" in t or ".direct_bases[0] is" in t or \
                        ("get_deriv_bases(" in t and "defined_only=True" not in t and "[0] is" in t):
                    R.bad(fi, n.ast, "first definer is looked up among all bases, not among the *defined* ones: a derived copy "
                                     "in an intermediate space hides the defining base")
                    continue
                # a predicate outside the vocabulary is explored both ways (the case analysis stays an
                # over-approximation of what can be reached); it is listed in the evidence
                R.note("%s: predicate `%s` is not part of the case vocabulary: both outcomes are explored" % (fi.short, t))


def _known(fi, loop, vocab, R):
    """Every test operand inside the loop must be in the rule's vocabulary."""
    for n in fi.cfg.nodes:
        if n.kind == "test" and n.ast is not None and any(a is loop for a in ancestors(fi.pm, n.ast)):
            t = norm(n.ast)
            if t not in vocab and (".bases[0] is" in t or ".direct_bases[0] is" in t or
                                   ("get_deriv_bases(" in t and "defined_only=True" not in t and "[0] is" in t)):
                # recognised, and wrong: the first base may be a *derived* copy in an intermediate space
                R.bad(fi, n.ast, "first definer is looked up among all bases, not among the *defined* ones: a derived copy "
                                 "in an intermediate space hides the defining base")
                vocab = set(vocab) | {t}
                continue
            if norm(n.ast) not in vocab:
                R.note("%s: predicate `%s` is not part of the case vocabulary: both outcomes are explored" % (fi.short, norm(n.ast)))


@rule("C03.R3", "C03", "CASE", "propagation guards equal what re-derivation from scratch requires", min_instances=16, also=("C10",))
def r3(ctx, R):
    """For one sub space S and the edited member b named n: S lacks n -> create derived; S's n
    is defined -> nothing; S's n is derived and b is its first definer -> update from b; S's n
    is derived from another base -> nothing.  Interpreted for new_cells, set_cells_property,
    rename_cells, new_ref, change_ref."""
    # ---- set_cells_property / rename_cells
    for spec, action, defined_first in (("SpaceManager.set_cells_property", ("on_set_property",), False),
                                        ("SpaceManager.rename_cells", ("append", "on_rename"), None)):
        fi = ctx.func(spec)
        lp = _sub_loops(fi)
        R.must(lp, "%s: loop over subs not found" % spec)
        lp = lp[0]
        cv = "c"
        for n_ in ast.walk(lp):
            if isinstance(n_, ast.Assign) and len(n_.targets) == 1 and isinstance(n_.targets[0], ast.Name) \
                    and isinstance(n_.value, ast.Subscript) and norm(n_.value.value) == "%s.cells" % norm(lp.target):
                cv = n_.targets[0].id      # the sub's cells of that name, whatever the local is called
        table = {("is", cv, "cells"): "is_self", ("call", "%s.is_defined()" % cv): "defined", ("ncall", "%s.is_derived()" % cv): "defined",
                 ("is", "self.get_deriv_bases(%s, defined_only=True)[0]" % cv, "cells"): "first"}
        _known_atoms(fi, lp, table, R)
        acts = [c for c in ast.walk(lp) if isinstance(c, ast.Call) and call_name(c) in action]
        R.must(acts, "%s: action not found in the loop" % spec)
        cases = [("self", dict(is_self=True, defined=True, first=False), True),
                 ("derived from b", dict(is_self=False, defined=False, first=True), True),
                 ("derived from another base", dict(is_self=False, defined=False, first=False), False),
                 ("defined, first definer other", dict(is_self=False, defined=True, first=False), False),
                 ("defined override of b", dict(is_self=False, defined=True, first=True), defined_first)]
        for label, s_, want in cases:
            if want is None:
                continue
            reached = _case_run_atoms(fi, table, s_)
            got = any(i in reached for a in acts for i in q.nodes_for(fi, a))
            R.inst("%s [%s]: %s" % (spec, label, "update" if want else "untouched"))
            if got != want:
                R.bad(fi, lp, "sub cells that is %s is %s" % (label, "updated (its own/other base's definition is overwritten)"
                                                               if got else "not updated"),
                      stmt="%s case %s" % (spec.split(".")[-1], label))
    rc = ctx.func("SpaceManager.rename_cells")
    R.inst("rename_cells: a sub space that has its own cells of the new name loses only the derived copy")
    ren = [c for c in q.calls(rc, name="on_rename")]
    dl = [c for c in q.calls(rc, name="on_del_cells")]
    reached = _case_run_atoms(rc, {("is", "c", "cells"): "is_self", ("in", "name", "space.cells"): "has_new"},
                              {"is_self": False, "has_new": True})
    if any(i in reached for c in ren for i in q.nodes_for(rc, c)) or not dl or \
            not any(i in reached for c in dl for i in q.nodes_for(rc, c)):
        R.bad(rc, ren[0] if ren else rc.node, "the derived cells of a sub is renamed onto the sub's own cells of that name, "
                                               "which is overwritten", stmt="rename onto own cells")
    # ---- new_cells
    fi = ctx.func("SpaceManager.new_cells")
    lp = _sub_loops(fi)
    R.must(lp, "new_cells: loop over subs not found")
    lp = lp[0]
    table = {("in", "name", "subspace.cells"): "has", ("call", "sub.is_derived()"): "derived", ("ncall", "sub.is_defined()"): "derived",
             ("is", "self.get_deriv_bases(sub, defined_only=True)[0]", "cells"): "first"}
    _known_atoms(fi, lp, table, R)
    create = [c for c in ast.walk(lp) if isinstance(c, ast.Call) and call_name(c) == "UserCellsImpl"]
    rederive = [c for c in ast.walk(lp) if isinstance(c, ast.Call) and call_name(c) == "on_inherit"]
    for label, has, derived, first, want in (("lacks the name", False, False, False, "create"),
                                             ("has a defined cells", True, False, False, "none"),
                                             ("derives it from b (b now first definer)", True, True, True, "rederive"),
                                             ("derives it from an earlier base", True, True, False, "none")):
        reached = _case_run_atoms(fi, table, {"has": has, "derived": derived, "first": first})
        gc = any(i in reached for a in create for i in q.nodes_for(fi, a))
        gr = any(i in reached for a in rederive for i in q.nodes_for(fi, a))
        got = "create" if gc else ("rederive" if gr else "none")
        R.inst("new_cells [sub %s]: %s" % (label, want))
        if got != want:
            R.bad(fi, lp, "sub space that %s: action is `%s`, re-derivation from scratch requires `%s`" % (label, got, want),
                  stmt="new_cells case " + label)
    for c in create:
        if norm(kw(c, "base") or ast.Constant(0)) != "cells" or norm(kw(c, "is_derived") or ast.Constant(0)) != "True":
            R.bad(fi, c, "derived copy is not created from the new cells")
    for c in rederive:
        if [norm(a) for a in c.args] != ["self", "[cells]"]:
            R.bad(fi, c, "sub cells is not re-derived from the new cells")
    # ---- a re-bound / re-derived reference is always replaced, with the defined-ness it is given
    ocr = ctx.func("UserSpaceImpl.on_change_ref")
    R.inst("on_change_ref: every normal path deletes the old reference and creates one with the given is_derived")
    mk = q.calls(ocr, name="on_create_ref")
    dl = q.calls(ocr, name="on_del_ref")
    okc = bool(mk) and bool(dl) and ocr.cfg.must_pass(q.nodes_for(ocr, mk), ocr.cfg.exit, labels=("N", "T", "F")) \
        and ocr.cfg.must_pass(q.nodes_for(ocr, dl), ocr.cfg.exit, labels=("N", "T", "F"))
    if okc:
        c_ = mk[0]
        dv = kw(c_, "is_derived") or (c_.args[2] if len(c_.args) > 2 else None)
        okc = dv is not None and norm(dv) == "is_derived" and not any(
            isinstance(n_, ast.Name) and n_.id == "is_derived" and isinstance(n_.ctx, ast.Store) for n_ in walk_local(ocr.node))
    if not okc:
        R.bad(ocr, ocr.node, "some path re-binds (or keeps) a reference without replacing it by one of the requested kind: "
                             "`Sub.x = <the object it already derives>` leaves Sub.x derived, and the next edit of the base "
                             "overwrites the override", stmt="on_change_ref replaces")
    roi = ctx.func("ReferenceImpl.on_inherit")
    R.inst("ReferenceImpl.on_inherit: every normal path re-binds the value and notifies the container")
    ws_ = [st for st, t in q.attr_writes(roi, attr="interface", recv="self")]
    nt_ = q.calls(roi, name="notify", recv_endswith="container")
    if not ws_ or not nt_ or not roi.cfg.must_pass(q.nodes_for(roi, ws_), roi.cfg.exit, labels=("N", "T", "F")) \
            or not roi.cfg.must_pass(q.nodes_for(roi, nt_), roi.cfg.exit, labels=("N", "T", "F")):
        R.bad(roi, roi.node, "a derived reference can keep the object of its former first definer (a shortcut skips the "
                             "re-binding or the notification)", stmt="on_inherit re-binds")
    # ---- new_ref / change_ref
    fi = ctx.func("SpaceManager.new_ref")
    lp = [l for l in _sub_loops(fi)]
    R.must(lp, "new_ref: loop over subs not found")
    lp = lp[0]
    act = [c for c in ast.walk(lp) if isinstance(c, ast.Call) and call_name(c) == "on_create_ref"]
    for label, has, want in (("lacks the name", False, True), ("has its own reference", True, False)):
        reached = _case_run(fi, {"name in subspace.own_refs": has, "other is not None": False})
        got = any(i in reached for a in act for i in q.nodes_for(fi, a))
        R.inst("new_ref [sub %s]: %s" % (label, "create derived" if want else "untouched"))
        if got != want:
            R.bad(fi, lp, "sub space that %s is %s" % (label, "given a derived reference" if got else "left without the reference"),
                  stmt="new_ref case " + label)
    for c in act:
        if norm(kw(c, "is_derived") or ast.Constant(0)) != "True":
            R.bad(fi, c, "reference created in a sub is not marked derived")
    fi = ctx.func("SpaceManager.change_ref")
    lp = _sub_loops(fi)
    R.must(lp, "change_ref: loop over subs not found")
    lp = lp[0]
    vocab = {"subref.is_defined()", "subref.defined_bases[0] is not space.own_refs[name]", "isinstance(value, Interface)",
             "value._is_valid()", "refmode == 'auto'", "refmode == 'relative'"}
    _known(fi, lp, vocab, R)
    act = [c for c in ast.walk(lp) if isinstance(c, ast.Call) and call_name(c) == "on_change_ref"]
    for label, defined, first, want in (("derives it from b", False, True, True), ("overrides it", True, True, False),
                                        ("derives it from another base", False, False, False)):
        reached = _case_run(fi, {"subref.is_defined()": defined,
                                 "subref.defined_bases[0] is not space.own_refs[name]": not first})
        got = any(i in reached for a in act for i in q.nodes_for(fi, a))
        R.inst("change_ref [sub %s]: %s" % (label, "update" if want else "untouched"))
        if got != want:
            R.bad(fi, lp, "sub reference that %s is %s" % (label, "overwritten" if got else "not updated"),
                  stmt="change_ref case " + label)
    for c in act:
        if norm(kw(c, "is_derived") or ast.Constant(0)) != "True":
            R.bad(fi, c, "re-bound sub reference is not marked derived")
    # self is updated first, as defined
    for spec, callee in (("SpaceManager.new_ref", "on_create_ref"), ("SpaceManager.change_ref", "on_change_ref")):
        fi = ctx.func(spec)
        own = [c for c in q.calls(fi, name=callee, recv="space")]
        R.inst("%s: the edited space itself gets a defined reference first" % spec)
        if len(own) != 1 or norm(kw(own[0], "is_derived") or ast.Constant(0)) != "False":
            R.bad(fi, fi.node, "the edited space's own reference is not (re)defined", stmt=callee + " on space")
        elif _sub_loops(fi) and not q.dominated(fi, own, _sub_loops(fi)[-1]):
            R.bad(fi, own[0], "subs are updated before the defining space")
    sp = ctx.func("SpaceManager.set_cells_property")
    R.inst("set_cells_property: only the edited cells becomes defined")
    dv = [n for n in walk_local(sp.node) if isinstance(n, ast.Assign) and norm(n.targets[0]) == "define"]
    if sorted(norm(d.value) for d in dv) != ["False", "True"]:
        R.bad(sp, sp.node, "`define` flag handling changed", stmt="define")
    else:
        lp = _sub_loops(sp)[0]
        f_ = [d for d in dv if norm(d.value) == "False"][0]
        if not any(x is f_ for x in ast.walk(lp)) or any(x is [d for d in dv if norm(d.value) == "True"][0] for x in ast.walk(lp)):
            R.bad(sp, f_, "derived sub cells become defined when the base's formula changes")
    if not _sub_loops(sp) or kw(_sub_loops(sp)[0].iter, "skip_self") is None or norm(kw(_sub_loops(sp)[0].iter, "skip_self")) != "False":
        R.bad(sp, sp.node, "the edited cells itself is not part of the loop (skip_self=False)", stmt="skip_self")


@rule("C03.R4", "C03", "REACH", "every member / base edit schedules re-derivation of all descendants", min_instances=14, also=("C13",))
def r4(ctx, R):
    """Member edits loop over _get_subs or call update_subs; base edits schedule
    _update_derived_space for the node and for every node of edge_dfs/edge_bfs; update_subs
    covers cells and own_refs; _update_derived_space schedules _update_derived_refs;
    UserSpaceImpl.on_inherit creates missing derived members and updates derived ones."""
    for spec in ("SpaceManager.new_cells", "SpaceManager.set_cells_property", "SpaceManager.rename_cells",
                 "SpaceManager.new_ref", "SpaceManager.change_ref", "SpaceManager.sort_cells"):
        fi = ctx.func(spec)
        R.inst("%s iterates over all sub spaces" % spec)
        if not _sub_loops(fi):
            R.bad(fi, fi.node, "edit is not propagated to sub spaces", stmt="for ... in _get_subs")
    for spec in ("SpaceManager.del_cells", "SpaceManager.del_ref", "SpaceManager.rename_cells"):
        fi = ctx.func(spec)
        us = q.calls(fi, name="update_subs", recv="self")
        R.inst("%s re-derives the subs (update_subs)" % spec)
        if not us or not fi.cfg.must_pass(q.nodes_for(fi, us), fi.cfg.exit, labels=("N", "T", "F")):
            R.bad(fi, fi.node, "sub spaces are not re-derived after the edit", stmt="update_subs")
    us = ctx.func("SharedSpaceOperations.update_subs")
    R.inst("update_subs: cells and own_refs of every sub, from its own MRO")
    attrs = [n for n in walk_local(us.node) if isinstance(n, (ast.Tuple, ast.List)) and all(isinstance(e, ast.Constant) for e in n.elts)
             and {e.value for e in n.elts} == {"cells", "own_refs"}]
    oi = q.calls(us, name="on_inherit")
    if not attrs or not _sub_loops(us) or not oi or [norm(a) for a in oi[0].args] != ["self", "b", "attr"] or \
            "self._get_space_bases(s" not in " ".join(norm(v) for v in assigned_value(us, "b")):
        R.bad(us, us.node, "update_subs does not re-derive cells and references of every sub", stmt="update_subs")
    gs = ctx.func("SharedSpaceOperations._get_subs")
    R.inst("_get_subs = ordered_subs(space)[idx:] (all descendants, topologically)")
    if "self._graph.ordered_subs(space.idstr)" not in " ".join(ast.unparse(gs.node).split()):
        R.bad(gs, gs.node, "_get_subs does not enumerate all descendants", stmt="ordered_subs")
    os_ = ctx.func("SpaceGraph.ordered_subs")
    if not q.calls(os_, name="descendants") or not q.calls(os_, name="topological_sort") or not q.calls(os_, name="add", recv="g"):
        R.bad(os_, os_.node, "ordered_subs is not (descendants + self) in topological order", stmt="ordered_subs")
    for spec, walker, graph in (("SpaceUpdater.new_space", ("edge_dfs", "edge_bfs"), None),
                                ("SpaceUpdater.add_bases", ("edge_dfs", "edge_bfs"), None),
                                ("SpaceUpdater.remove_bases", ("edge_bfs", "edge_dfs"), "self.manager._graph"),
                                ("SpaceUpdater.del_defined_space", ("edge_bfs", "edge_dfs"), "self.manager._graph")):
        fi = ctx.func(spec)
        refs = [x for x in walk_local(fi.node) if isinstance(x, ast.Attribute) and x.attr == "_update_derived_space"]
        lps = [x for x in walk_local(fi.node) if isinstance(x, ast.For) and isinstance(x.iter, ast.Call) and call_name(x.iter) in walker]
        R.inst("%s schedules _update_derived_space for every descendant" % spec)
        if not lps or not any(r_ in list(ast.walk(l)) for l in lps for r_ in refs):
            R.bad(fi, fi.node, "descendants are not re-derived after the base relation changed", stmt="edge walk")
            continue
        if graph is not None and norm(lps[0].iter.args[0]) != graph:
            R.bad(fi, lps[0], "descendants are enumerated on the graph from which the edges were already removed")
        want_src = {"SpaceUpdater.del_defined_space": "nodes_removed", "SpaceUpdater.new_space": "node"}.get(spec, "space.idstr")
        if [q.anorm(fi, a) for a in lps[0].iter.args[1:2]] != [want_src]:
            R.bad(fi, lps[0], "descendants are not enumerated from %s" % (
                "every node of the deleted subtree: spaces inheriting from a child of the deleted space keep its members"
                if want_src == "nodes_removed" else "the edited node"))
        if spec != "SpaceUpdater.del_defined_space":
            direct = [r_ for r_ in refs if not any(r_ in list(ast.walk(l)) for l in lps)]
            if not direct:
                R.bad(fi, fi.node, "the edited space itself is not re-derived", stmt="_update_derived_space(node)")
        ex = q.calls(fi, name="execute", recv_endswith="_instructions")
        um = q.calls(fi, name="_update_manager")
        R.inst("%s executes the instructions and commits the graph last" % spec)
        if not ex or not um or not q.dominated(fi, ex, um[0]):
            R.bad(fi, fi.node, "instructions are not executed before the graph is committed", stmt="execute/_update_manager")
    ud = ctx.func("SpaceUpdater._update_derived_space")
    R.inst("_update_derived_space: cells now, references scheduled")
    oi = q.calls(ud, name="on_inherit")
    if not oi or [norm(a) for a in oi[0].args] != ["self", "bases", "'cells'"] or \
            not any(isinstance(x, ast.Attribute) and x.attr == "_update_derived_refs" for x in walk_local(ud.node)):
        R.bad(ud, ud.node, "cells or references of a re-derived space are not updated", stmt="_update_derived_space")
    ur = ctx.func("SpaceUpdater._update_derived_refs")
    oi = q.calls(ur, name="on_inherit")
    if not oi or [norm(a) for a in oi[0].args] != ["self", "bases", "'own_refs'"]:
        R.bad(ur, ur.node, "references of a re-derived space are not updated", stmt="_update_derived_refs")
    for f_ in (ud, ur):
        bv = assigned_value(f_, "bases")
        if not bv or norm(bv[0]) != "self._get_space_bases(space, self._graph)":
            R.bad(f_, f_.node, "bases are not taken from the updater's working graph", stmt="bases =")
    ui = ctx.func("UserSpaceImpl.on_inherit")
    R.inst("UserSpaceImpl.on_inherit: missing members are created derived; derived members are re-derived")
    mk = [c for c in q.calls(ui, name=("UserCellsImpl", "ReferenceImpl"))]
    if len(mk) != 2 or not all(norm(kw(c, "is_derived") or ast.Constant(0)) == "True" for c in mk) or \
            not all(("name not in selfdict", "T") in q.guards_of(ui, c) for c in mk):
        R.bad(ui, ui.node, "members defined in a base and missing in the sub are not created as derived", stmt="create derived")
    oi = [c for c in q.calls(ui, name="on_inherit") if norm(c.func.value) == "selfdict[name]"]
    if not oi or [norm(a) for a in oi[0].args] != ["updater", "bs"] or \
            q.guards_of(ui, oi[0]) != {("selfdict[name].is_derived()", "T")}:
        R.bad(ui, ui.node, "derived members are not re-derived from their defined bases (or defined ones are)", stmt="on_inherit of member")
    lp = [x for x in walk_local(ui.node) if isinstance(x, ast.For) and norm(x.iter) == "basedict"]
    if not lp:
        R.bad(ui, ui.node, "not every name provided by the bases is visited", stmt="for name in basedict")
    ci = ctx.func("CellsImpl.on_inherit")
    R.inst("CellsImpl.on_inherit copies formula, allow_none and is_cached from bases[0]")
    ws = {t.attr: norm(st.value) for st, t in q.attr_writes(ci, recv="self")}
    if ws.get("formula") != "bases[0].formula" or ws.get("is_cached") != "bases[0].is_cached" or ws.get("allow_none") != "bases[0].allow_none":
        R.bad(ci, ci.node, "a derived cells does not take all properties of its first base", stmt="on_inherit copies")


@rule("C03.R5", "C03", "DOM", "re-binding a reference always goes through the replacement path", min_instances=3, also=("C04", "C10", "C18"))
def r5(ctx, R):
    """ReferenceManager.change_ref delegates to ModelImpl.change_ref / SpaceManager.change_ref on every
    normal path; SpaceManager.change_ref calls `space.on_change_ref(name, value, is_derived=False, ...)` on
    every normal path.  A shortcut for "the value it is bound to already" skips the step that turns a derived
    reference into a defined override (and that records the mode given by the caller)."""
    rc = ctx.func("ReferenceManager.change_ref")
    dg = [c for c in q.calls(rc, name="change_ref") if "spmgr" in norm(c.func.value) or norm(c.func.value).endswith(".model")]
    R.inst("ReferenceManager.change_ref: every normal path delegates the re-binding")
    ex = rc.cfg.exit
    r_ = rc.cfg.reach([rc.cfg.entry], avoid=set(q.nodes_for(rc, dg)) if dg else set(), labels=("N", "T", "F"))
    if not dg or ex in r_:
        R.bad(rc, rc.node, "a path returns without re-binding: assigning the object a *derived* reference is bound to already "
                           "leaves it derived (the next edit of the base overwrites the override)", stmt="change_ref delegates")
    sc = ctx.func("SpaceManager.change_ref")
    oc = [c for c in q.calls(sc, name="on_change_ref") if norm(c.func.value) == "space"]
    R.inst("SpaceManager.change_ref: space.on_change_ref(name, value, is_derived=False, refmode=refmode, ...) on every normal path")
    if not oc or not sc.cfg.must_pass(q.nodes_for(sc, oc), sc.cfg.exit, labels=("N", "T", "F")):
        R.bad(sc, sc.node, "a path re-binds the reference in place: it becomes defined without taking the mode the caller gave, "
                           "and without discarding what was computed through it", stmt="on_change_ref on every path")
    else:
        c = oc[0]
        if norm(kw(c, "is_derived") or ast.Constant(0)) != "False" or norm(kw(c, "refmode") or ast.Constant(0)) != "refmode" \
                or [norm(a) for a in c.args[:2]] != ["name", "value"]:
            R.bad(sc, c, "the edited space's reference is not replaced by a defined one with the given value and mode")
    nr = ctx.func("SpaceManager.new_ref")
    R.inst("SpaceManager.new_ref returns the reference created in the edited space (the value registry records it)")
    rets = q.returns(nr)
    okn = False
    for r in rets:
        v = q.origin(nr, r.value)
        if isinstance(v, ast.Call) and call_name(v) == "on_create_ref" and norm(v.func.value) == "space":
            okn = True
    if len(rets) != 1 or not okn:
        R.bad(nr, nr.node, "new_ref does not return the reference of the edited space (a local reused in the loop over the sub "
                           "spaces makes it the last sub's derived reference: the registry records the wrong one)", stmt="return result")
