"""C14 - saving never loses the last good save; failed saves and loads leave no residue."""
import ast

from ..framework import rule
from ..astutil import dotted, call_name, call_recv, norm, walk_local, unparse
from ..index import AnalysisError
from .. import q
from .common import enclosing_for

META = {
    "explanation": (
        "Full structural claim.  'For every file operation taken as the failure point' is "
        "decided as 'on every path to the RAISE exit': (R1) backup rotation dominates the "
        "writer, with the default generation count, and the model's path is only updated after "
        "the writer returned; (R2) rotation renames the highest generation first and deletes "
        "only the generation beyond the limit; (R3) in every ModelWriter.write_model / "
        "ModelReader.read_model of serializers 2,4,5,6 each `serializing` flag set is reset on "
        "all exits; (R4) who-reads rule on ModelWriter.root - zip content is produced only "
        "under the temporary root, which is moved into place by the last statement of the "
        "try body after archiving, and the temporary directory is cleaned in finally; (R5) a "
        "failed read closes the partially built model through a catch-all handler that "
        "re-raises, and closing removes the registry entry."),
    "level_text": None,
    "not_decided": [
        "atomicity of shutil.move / Path.rename themselves (OS level)",
        "contents of the backup copies",
    ],
    "assumptions": [
        "every call is a possible failure point (CFG exceptional edges)",
        "tempfile.TemporaryDirectory() yields a directory distinct from the destination",
    ],
}

SERIALIZERS = ("serializer_6", "serializer_5", "serializer_4", "serializer_2")


@rule("C14.R1", "C14", "DOM", "backup rotation dominates writing; path updated only after a successful write",
      min_instances=6, also=("C04",))
def r1(ctx, R):
    """serialize.write_model: _increment_backups(model, root, max_backups) dominates
    ModelWriter(..., root, ...).write_model(); max_backups = DEFAULT_MAX_BACKUPS if backup
    else 0; DEFAULT_MAX_BACKUPS == 3; backup defaults to True at every entry point; the
    path property is assigned only after the writer returned."""
    mi = ctx.repo.module("modelx.serialize")
    fi = mi.funcs.get("write_model")
    R.need(fi is not None, "serialize.write_model not found")
    inc = q.calls(fi, name="_increment_backups")
    wr = [c for c in q.calls(fi, name="write_model")
          if isinstance(c.func.value, ast.Call) and call_name(c.func.value) == "ModelWriter"]
    R.must(len(wr) == 1, "expected one ModelWriter(...).write_model() call, found %d" % len(wr))
    R.slot("write_model", {"rotate": [norm(i) for i in inc], "write": norm(wr[0])[:120]})
    R.inst("write_model: rotation dominates writing")
    if not inc or not q.dominated(fi, inc, wr[0]):
        R.bad(fi, wr[0], "the writer can run without the existing save having been moved aside first",
              stmt="ModelWriter(...).write_model()")
    for i in inc:
        if q.path_between(fi, wr[0], i):
            R.bad(fi, i, "backup rotation runs after the writer: the fresh save is renamed to a backup")
    if not inc:
        return
    R.inst("write_model: rotation is unconditional")
    if not fi.cfg.must_pass(q.nodes_for(fi, inc), fi.cfg.exit):
        R.bad(fi, inc[0], "backup rotation is conditional: some path writes without rotating")
    # same destination variable
    R.inst("write_model: rotation and writer receive the same destination")
    a_inc = inc[0].args[1] if len(inc[0].args) > 1 else q_kw(inc[0], "base_path")
    mw = wr[0].func.value
    a_wr = mw.args[2] if len(mw.args) > 2 else q_kw(mw, "path")
    if not (isinstance(a_inc, ast.Name) and isinstance(a_wr, ast.Name) and a_inc.id == a_wr.id):
        R.bad(fi, inc[0], "backup rotation and writer do not receive the same path variable "
                          "(`%s` vs `%s`)" % (unparse(a_inc) if a_inc else None, unparse(a_wr) if a_wr else None))
    # max_backups
    R.inst("write_model: max_backups is DEFAULT_MAX_BACKUPS when backup is true")
    a_mb = inc[0].args[2] if len(inc[0].args) > 2 else q_kw(inc[0], "max_backups")
    ok = False
    if isinstance(a_mb, ast.Name):
        for n in walk_local(fi.node):
            if isinstance(n, ast.Assign) and any(isinstance(t, ast.Name) and t.id == a_mb.id for t in n.targets):
                v = n.value
                if isinstance(v, ast.IfExp) and isinstance(v.test, ast.Name) and v.test.id == "backup" \
                        and isinstance(v.body, ast.Name) and v.body.id == "DEFAULT_MAX_BACKUPS" \
                        and isinstance(v.orelse, ast.Constant) and v.orelse.value == 0:
                    ok = q.dominated(fi, [n], inc[0])
    elif isinstance(a_mb, ast.IfExp):
        v = a_mb
        ok = (isinstance(v.test, ast.Name) and v.test.id == "backup" and isinstance(v.body, ast.Name)
              and v.body.id == "DEFAULT_MAX_BACKUPS")
    if not ok:
        R.bad(fi, inc[0], "max_backups handed to the rotation is not `DEFAULT_MAX_BACKUPS if backup else 0`")
    R.inst("DEFAULT_MAX_BACKUPS == 3 (three earlier generations)")
    c = mi.consts.get("DEFAULT_MAX_BACKUPS")
    if not (isinstance(c, ast.Constant) and c.value == 3):
        R.bad("modelx/serialize/__init__.py", c, "DEFAULT_MAX_BACKUPS is not 3", stmt="DEFAULT_MAX_BACKUPS")
    # defaults of backup
    for spec, f2 in (("serialize.write_model", fi), ("Model.write", ctx.func("Model.write")),
                     ("Model.zip", ctx.func("Model.zip"))):
        R.inst("%s: backup defaults to True" % spec)
        a = f2.node.args
        names = [x.arg for x in a.args]
        dflt = None
        if "backup" in names:
            i = names.index("backup") - (len(names) - len(a.defaults))
            if i >= 0:
                dflt = a.defaults[i]
        if not (isinstance(dflt, ast.Constant) and dflt.value is True):
            R.bad(f2, f2.node, "parameter `backup` does not default to True", stmt="backup default")
    for spec in ("Model.write", "Model.zip"):
        f2 = ctx.func(spec)
        cs = q.calls(f2, name="write_model")
        R.must(len(cs) == 1, "%s does not call write_model once" % spec)
        R.inst("%s: forwards backup unchanged" % spec)
        kw = q_kw(cs[0], "backup")
        if not (isinstance(kw, ast.Name) and kw.id == "backup"):
            R.bad(f2, cs[0], "backup flag is not forwarded to write_model")
    # path assignment after writing
    R.inst("write_model: model.path assigned only after the writer returned")
    for st, t in q.attr_writes(fi, attr="path"):
        if not q.dominated(fi, [wr[0]], st):
            R.bad(fi, st, "model.path is updated before/without a completed write")


def q_kw(call, name):
    for k in call.keywords:
        if k.arg == name:
            return k.value
    return None


@rule("C14.R2", "C14", "DOM", "rotation renames the highest generation first, deletes only beyond the limit",
      min_instances=6)
def r2(ctx, R):
    """_increment_backups: the recursive call for nth+1 dominates rename of generation nth;
    rmtree/unlink only under `nth == max_backups`; the rename target is base_path + '_BAK' +
    str(nth + 1); everything is guarded by backup_path.exists()."""
    mi = ctx.repo.module("modelx.serialize")
    fi = mi.funcs.get("_increment_backups")
    R.need(fi is not None, "_increment_backups not found")
    rec = q.calls(fi, name="_increment_backups")
    ren = q.calls(fi, name=("rename", "replace", "move"))
    dels = q.calls(fi, name=("rmtree", "unlink", "rmdir", "remove"))
    R.must(len(rec) == 1, "expected one recursive call, found %d" % len(rec))
    R.must(len(ren) == 1, "expected one rename call, found %d" % len(ren))
    R.must(dels, "no deletion call found")
    R.slot("_increment_backups", {"recurse": norm(rec[0]), "rename": norm(ren[0]),
                                  "delete": [norm(d) for d in dels]})
    R.inst("recursive call passes nth + 1")
    a = rec[0].args[3] if len(rec[0].args) > 3 else q_kw(rec[0], "nth")
    if a is None or norm(a) != "nth + 1":
        R.bad(fi, rec[0], "recursive rotation is not called for generation nth + 1")
    for i, nm in ((1, "base_path"), (2, "max_backups")):
        a = rec[0].args[i] if len(rec[0].args) > i else q_kw(rec[0], nm)
        R.inst("recursive call forwards %s unchanged" % nm)
        if not (isinstance(a, ast.Name) and a.id == nm):
            R.bad(fi, rec[0], "recursive rotation does not forward `%s`" % nm, stmt="recurse " + nm)
    R.inst("higher generation is moved before the lower one is renamed over it")
    if not q.dominated(fi, rec, ren[0]):
        R.bad(fi, ren[0], "generation nth is renamed to nth+1 before nth+1 was moved aside: "
                          "an older backup is overwritten or the rename fails")
    R.inst("rename source is backup_path, target is base_path + '_BAK' + str(nth + 1)")
    src = call_recv(ren[0])
    tgt = ren[0].args[0] if ren[0].args else None
    ok_t = False
    if isinstance(tgt, ast.Name):
        for n in walk_local(fi.node):
            if isinstance(n, ast.Assign) and any(isinstance(t, ast.Name) and t.id == tgt.id for t in n.targets):
                tx = norm(n.value)
                if "base_path" in tx and "'_BAK'" in tx and "nth + 1" in tx:
                    ok_t = True
    elif tgt is not None:
        tx = norm(tgt)
        ok_t = "base_path" in tx and "'_BAK'" in tx and "nth + 1" in tx
    if src != "backup_path" or not ok_t:
        R.bad(fi, ren[0], "rename does not move <path>_BAK<n> to <path>_BAK<n+1>")
    # backup_path definition
    R.inst("backup_path is base_path plus '_BAK<nth>' ('' for nth == 0)")
    okbp = False
    for n in walk_local(fi.node):
        if isinstance(n, ast.Assign) and any(isinstance(t, ast.Name) and t.id == "postfix" for t in n.targets):
            v = n.value
            if isinstance(v, ast.IfExp) and norm(v.test) == "nth" and "'_BAK'" in norm(v.body) \
                    and "str(nth)" in norm(v.body) and isinstance(v.orelse, ast.Constant) and v.orelse.value == "":
                okbp = True
    okbp2 = any(isinstance(n, ast.Assign) and any(isinstance(t, ast.Name) and t.id == "backup_path" for t in n.targets)
                and "base_path" in norm(n.value) and "postfix" in norm(n.value) for n in walk_local(fi.node))
    if not (okbp and okbp2):
        R.bad(fi, fi.node, "backup_path is no longer base_path + ('_BAK' + str(nth) if nth else '')",
              stmt="backup_path")
    POS = ("nth == max_backups", "max_backups == nth", "nth >= max_backups", "max_backups <= nth")
    NEG = ("nth != max_backups", "max_backups != nth", "nth < max_backups", "max_backups > nth")

    def run(exists, limit):
        def oc(e):
            t = norm(e)
            if t == "backup_path.exists()":
                return "T" if exists else "F"
            if t in POS:
                return "T" if limit else "F"
            if t in NEG:
                return "F" if limit else "T"
            return None
        return q.run_abstract(fi, oc)

    def hit(r_, x):
        return any(i in r_ for i in q.nodes_for(fi, x))
    below, at, absent = run(True, False), run(True, True), run(False, None)
    for d in dels:
        R.inst("`%s` only under nth == max_backups" % norm(d))
        if hit(below, d) or hit(absent, d) or not hit(at, d):
            R.bad(fi, d, "a saved generation is deleted although the generation limit is not reached")
    R.inst("rename/recursion only when the path exists; rename not under the delete branch")
    for x in (rec[0], ren[0]):
        if hit(absent, x) or not hit(below, x):
            R.bad(fi, x, "rotation step not guarded by backup_path.exists()")
        if hit(at, x):
            R.bad(fi, x, "rotation step is not exclusive with the deletion branch")


def _flag_sets(fi):
    """[(stmt, target_text, is_reset)] for writes of `*.serializing`."""
    out = []
    for st, t in q.attr_writes(fi, attr="serializing"):
        if not isinstance(st, ast.Assign):
            continue
        is_none = isinstance(st.value, ast.Constant) and st.value.value is None
        out.append((st, dotted(t), is_none))
    return out


@rule("C14.R3", "C14", "PAIR", "serializing flags are reset on every exit of every writer/reader",
      min_instances=14)
def r3(ctx, R):
    """Every `X.serializing = <non-None>` in ModelWriter.write_model / ModelReader.read_model
    (serializers 2,4,5,6) is followed on all paths, including RAISE, by `X.serializing = None`."""
    for ser in SERIALIZERS:
        for spec in ("ModelWriter.write_model", "ModelReader.read_model"):
            fi = ctx.func("%s:%s" % (ser, spec))
            sets = _flag_sets(fi)
            R.must(any(not r for _, _, r in sets), "no serializing flag set in %s:%s" % (ser, spec))
            for st, tgt, is_reset in sets:
                if is_reset:
                    continue
                resets = [s for s, t2, r2_ in sets if r2_ and t2 == tgt]
                R.inst("%s:%s `%s` reset on all exits" % (ser, spec, norm(st)))
                if not resets or not q.followed(fi, st, resets):
                    R.bad(fi, st, "flag `%s` can stay set after a failed %s: later saves/loads and "
                                  "pickling misbehave" % (tgt, "save" if "Writer" in spec else "load"),
                          path=q.explain_path(fi, q.nodes_for(fi, st), [fi.cfg.raise_, fi.cfg.exit],
                                              avoid=set(q.nodes_for(fi, resets)) if resets else ()))
    # the flags are only ever written by writers/readers (who-may-write)
    R.inst("who-may-write: `serializing` is written only in __init__, write_model, read_model")
    for f in ctx.repo.all_funcs():
        for st, t in q.attr_writes(f, attr="serializing"):
            if f.name not in ("__init__", "write_model", "read_model"):
                R.bad(f, st, "`serializing` written outside the writer/reader entry points")


@rule("C14.R4", "C14", "WMC", "zip content is written only under the temporary root and moved last",
      min_instances=9)
def r4(ctx, R):
    """serializer_6.ModelWriter: `root` is read only to derive temp_root/work_dir, in the
    is-directory test and as destination of the final move; under is_zip temp_root/work_dir
    are re-pointed into a TemporaryDirectory before the first write; the move is the last
    statement of the try body, dominated by archive_dir; the directory is cleaned in finally."""
    W = ctx.cls("serializer_6:ModelWriter")
    wm = ctx.func("serializer_6:ModelWriter.write_model")
    cfg = wm.cfg
    # --- who reads .root
    allowed_ctx = 0
    reads = []
    for f in ctx.repo.module("serializer_6").all_funcs:
        for n in walk_local(f.node):
            if isinstance(n, ast.Attribute) and n.attr == "root" and isinstance(n.ctx, ast.Load):
                r = dotted(n.value)
                if r in ("self", "self.writer", "writer") and (f.cls is W or r != "self"):
                    reads.append((f, n))
    R.need(len(reads) >= 4, "expected >=4 reads of ModelWriter.root, found %d" % len(reads))
    pm_cache = {}
    moves = [c for c in q.calls(wm, name="move") if call_recv(c) == "shutil"]
    R.must(len(moves) == 1, "expected one shutil.move in write_model, found %d" % len(moves))
    move = moves[0]
    for f, n in reads:
        R.inst("read of .root at %s" % f.loc(n))
        if f is not wm:
            R.bad(f, n, "ModelWriter.root is read outside write_model: content may be written to "
                        "the destination directly", stmt="%s: %s" % (f.short, norm(n)))
            continue
        pm = f.pm

        def use_ok(n):
            st = n
            while not isinstance(st, ast.stmt):
                st = pm[st]
            # (a) deriving temp names
            if isinstance(st, ast.Assign) and all(isinstance(t, ast.Attribute) and t.attr in ("temp_root", "work_dir")
                                                  for t in st.targets):
                par = pm[n]
                if isinstance(par, ast.Attribute) and par.attr in ("name", "stem"):
                    return True
            # (b) existence / directory test, error message
            par = pm[n]
            if isinstance(par, ast.Attribute) and par.attr in ("exists", "is_dir", "is_file", "name"):
                if isinstance(st, (ast.If, ast.Raise)):
                    return True
            # (c) destination of the move
            if isinstance(par, ast.Call) and par is move and len(move.args) == 2 and move.args[1] is n:
                return True
            # (d) a plain local alias of the path: every use of the alias must be one of the above
            if isinstance(st, ast.Assign) and st.value is n and len(st.targets) == 1 and isinstance(st.targets[0], ast.Name) \
                    and st.targets[0].id in q.single_defs(f):
                v = st.targets[0].id
                uses = [x for x in walk_local(f.node) if isinstance(x, ast.Name) and x.id == v and isinstance(x.ctx, ast.Load)]
                return all(use_ok(u) for u in uses)
            return False
        ok = use_ok(n)
        st = n
        while not isinstance(st, ast.stmt):
            st = pm[st]
        if not ok:
            R.bad(f, n, "ModelWriter.root used for something other than naming the temporary root, "
                        "the directory test or the final move", stmt=norm(st))
    # --- move arguments
    R.inst("move(self.temp_root, self.root)")
    if not (len(move.args) == 2 and norm(move.args[0]) == "self.temp_root" and norm(move.args[1]) == "self.root"):
        R.bad(wm, move, "final move is not temp_root -> root")
    # --- is_zip re-pointing
    tr = [t for t in q.tries(wm) if t.finalbody]
    R.must(len(tr) == 1, "write_model: expected one try/finally")
    tr = tr[0]
    tmpdirs = [n for n in walk_local(wm.node) if isinstance(n, ast.Assign)
               and isinstance(n.value, ast.Call) and dotted(n.value.func) == "tempfile.TemporaryDirectory"]
    R.must(len(tmpdirs) == 1, "write_model: TemporaryDirectory() assignment not found")
    tmpvar = tmpdirs[0].targets[0].id if isinstance(tmpdirs[0].targets[0], ast.Name) else None
    rep = {}
    for st, t in q.attr_writes(wm, attr=("temp_root", "work_dir"), recv="self"):
        rep.setdefault(t.attr, []).append(st)
    first_zip = [n.id for n in cfg.nodes if n.kind == "test" and norm(n.ast) == "self.is_zip"]
    R.must(first_zip, "no test of self.is_zip in write_model")
    writes = [c for c in q.calls(wm) if (call_recv(c) == "ziputil" and call_name(c) in
                                          ("make_root", "write_str", "write_str_utf8", "write_file",
                                           "write_file_utf8", "copy_file", "archive_dir", "pandas_to_pickle"))
              or call_name(c) in ("_write_recursive", "write_pickledata", "write_ios")
              or call_name(c) in ("ModelEncoder",)]
    R.need(len(writes) >= 6, "write_model: expected >=6 writing calls, found %d" % len(writes))
    R.slot("write_model", {"writes": [norm(w)[:70] for w in writes], "move": norm(move),
                           "repoint": {k: [norm(s) for s in v] for k, v in rep.items()}})
    for fld in ("temp_root", "work_dir"):
        sts = rep.get(fld, [])
        R.inst("is_zip: %s re-pointed into the temporary directory before the first write" % fld)
        good = [s for s in sts if tmpvar and q.mentions_name(s.value, tmpvar) and "%s.name" % tmpvar in norm(s.value)]
        if not good:
            R.bad(wm, wm.node, "self.%s is not re-pointed into the TemporaryDirectory for zip output: "
                               "a partially written archive appears at the destination" % fld,
                  stmt="repoint " + fld)
            continue
        for s in good:
            if not q.depends(wm, s, lambda e: norm(e) == "self.is_zip", "T"):
                R.bad(wm, s, "re-pointing of %s is not under `if self.is_zip`" % fld)
        gids = set(q.nodes_for(wm, good))
        for w in writes:
            for wid in q.nodes_for(wm, w):
                # on zip paths (first is_zip test true) the re-pointing must precede the write
                r = cfg.reach([cfg.entry], avoid=gids, avoid_edges={(first_zip[0], "F")})
                if wid in r:
                    R.bad(wm, w, "a zip save can reach this write before self.%s points into the "
                                 "temporary directory" % fld)
    # directory output: is it also produced aside and moved, or written in place?
    R.inst("directory output: produced aside and moved into place like the archive")
    in_place = all(q.depends(wm, s_, lambda e: norm(e) == "self.is_zip", "T") for s_ in rep.get("temp_root", []))
    if in_place:
        R.bad(wm, wm.node, "a directory destination is written in place: a failed save leaves a partial directory at the "
                           "path, which the next save rotates into _BAK1 as if it were a good generation",
              stmt="directory destination written in place")
    # no write receives self.root
    for w in writes:
        for a in list(w.args) + [k.value for k in w.keywords]:
            if any(isinstance(n, ast.Attribute) and n.attr == "root" and dotted(n.value) == "self"
                   for n in ast.walk(a)):
                R.bad(wm, w, "a writing call receives the destination path itself")
    # --- move placement
    R.inst("move is under is_zip, dominated by archive_dir, and is the last raising statement of the try body")
    arch = [c for c in q.calls(wm, name="archive_dir")]
    if not q.depends(wm, move, lambda e: norm(e) == "self.is_zip", "T"):
        R.bad(wm, move, "final move is not restricted to zip output")
    if not arch or not q.dominated(wm, arch, move):
        R.bad(wm, move, "archive is moved into place before the IO files were archived into it")
    fin_nodes = set()
    for s in tr.finalbody:
        for sub in ast.walk(s):
            fin_nodes.add(sub)
    for mid in q.nodes_for(wm, move):
        nxt = [b for b, l in cfg.succ[mid] if l != "X"]
        r = cfg.reach(nxt)
        for i in r:
            nd = cfg.nodes[i]
            if nd.ast is not None and nd.ast not in fin_nodes and nd.may_raise:
                R.bad(wm, nd.ast, "a statement that can fail runs after the archive was moved into place "
                                  "(a failed save would leave a new archive at the destination)")
    a_args = arch[0].args if arch else []
    R.inst("archive_dir(self.work_dir, self.temp_root)")
    if arch and not (len(a_args) >= 2 and norm(a_args[0]) == "self.work_dir" and norm(a_args[1]) == "self.temp_root"):
        R.bad(wm, arch[0], "archive_dir does not archive work_dir into temp_root")
    R.inst("write_ios writes under work_dir")
    wi = q.calls(wm, name="write_ios")
    R.must(len(wi) == 1, "write_ios call not found")
    rt = q_kw(wi[0], "root") or (wi[0].args[1] if len(wi[0].args) > 1 else None)
    if rt is None or norm(rt) != "self.work_dir":
        R.bad(wm, wi[0], "IO files are not written under work_dir")
    R.inst("make_root creates temp_root")
    mr = q.calls(wm, name="make_root")
    R.must(len(mr) == 1, "make_root call not found")
    if not mr[0].args or norm(mr[0].args[0]) != "self.temp_root":
        R.bad(wm, mr[0], "make_root does not create the temporary root")
    # cleanup in finally
    R.inst("temporary directory is cleaned in finally")
    cl = [c for c in q.calls(wm, name="cleanup") if call_recv(c) == tmpvar]
    if not cl or not all(c in fin_nodes for c in cl):
        R.bad(wm, tr, "TemporaryDirectory is not cleaned up in the finally block", stmt="tempdir.cleanup()")
    # __init__ initialises the three paths from the same parameter
    ini = ctx.func("serializer_6:ModelWriter.__init__")
    R.inst("__init__: root, temp_root, work_dir start from the same path")
    vals = {}
    for st, t in q.attr_writes(ini, attr=("root", "temp_root", "work_dir"), recv="self"):
        vals[t.attr] = norm(st.value)
    if len(vals) != 3 or len(set(vals.values())) != 1:
        R.bad(ini, ini.node, "root/temp_root/work_dir are not initialised from the same path: %s" % vals,
              stmt="init paths")
    # make_root dispatch on is_zip (one code path: C04.R7 uses the same fact)
    zm = ctx.func("ziputil:make_root")
    R.inst("ziputil.make_root: zip -> empty archive, else mkdir")
    if not q.tries(zm) and not any(isinstance(n, ast.If) and norm(n.test) == "is_zip" for n in walk_local(zm.node)):
        R.bad(zm, zm.node, "make_root no longer dispatches on is_zip", stmt="if is_zip")


@rule("C14.R5", "C14", "PAIR", "a failed read closes the partial model; close removes the registry entry",
      min_instances=10)
def r5(ctx, R):
    """ModelReader.read_model: catch-all handler, `if self.model: self.model.close()`, re-raise;
    the model is recorded on the reader in the statement that creates it; System.close_model
    deletes the registry entry after releasing the specs."""
    for ser in SERIALIZERS:
        fi = ctx.func("%s:ModelReader.read_model" % ser)
        cfg = fi.cfg
        inner = q.calls(fi, name=("_read_model_inner", "parse_dir"))
        R.must(inner, "%s: no _read_model_inner/parse_dir call in read_model" % ser)
        tr = [t for t in q.tries(fi) if any(inner[0] in list(ast.walk(s)) for s in t.body)]
        R.must(tr, "%s: reading is not inside a try" % ser)
        t = tr[0]
        R.inst("%s read_model: catch-all handler closes self.model and re-raises" % ser)
        hs = [h for h in t.handlers if q.is_catch_all(h)]
        if not hs:
            R.bad(fi, t, "no catch-all handler around reading: a half-loaded model stays registered "
                         "for exceptions outside %s" % [q.handler_names(h) for h in t.handlers],
                  stmt="try: read")
            continue
        h = hs[0]
        closes = [c for c in ast.walk(h) if isinstance(c, ast.Call) and call_name(c) == "close"
                  and call_recv(c) == "self.model"]
        if not closes:
            R.bad(fi, h, "handler does not close the partially read model")
        else:
            for c in closes:
                # only guard allowed: `if self.model`
                pm = fi.pm
                anc = pm[pm[c]] if isinstance(pm[c], ast.Expr) else pm[c]
                if isinstance(anc, ast.If):
                    if norm(anc.test) not in ("self.model", "self.model is not None"):
                        R.bad(fi, c, "closing the partial model is guarded by `%s`" % norm(anc.test))
                elif anc is not h:
                    R.bad(fi, c, "closing the partial model is nested in an unexpected construct")
        for hid in q.nodes_for(fi, h):
            if cfg.path_exists(hid, cfg.exit):
                R.bad(fi, h, "handler can complete normally: a failed load returns a broken model")
        for inn in inner:
            R.inst("%s read_model: every failure of `%s` reaches the handler" % (ser, norm(inn)[:40]))
            for i in q.nodes_for(fi, inn):
                xs = [b for b, l in cfg.succ[i] if l == "X"]
                hid = set(q.nodes_for(fi, h))
                if not xs or not all(x in hid for x in xs):
                    R.bad(fi, inn, "a failure while reading bypasses the closing handler")
        # model creation recorded atomically
        Rd = ctx.cls("%s:ModelReader" % ser)
        news = []
        for f in Rd.methods.values():
            for c in q.calls(f, name="new_model"):
                news.append((f, c))
        R.must(news, "%s: ModelReader never calls new_model" % ser)
        for f, c in news:
            R.inst("%s %s: new model is recorded on the reader by the creating statement" % (ser, f.short))
            st = c
            pm = f.pm
            while not isinstance(st, ast.stmt):
                st = pm[st]
            ok = isinstance(st, ast.Assign) and st.value is c and any(
                isinstance(t_, ast.Attribute) and t_.attr == "model" and dotted(t_.value) == "self"
                for t_ in st.targets)
            if not ok:
                R.bad(f, st, "the created model is not stored in self.model by the creating statement: "
                             "a failure right after creation leaves it registered")
    rp = ctx.func("serializer_6:RenameParser.get_instruction")
    R.inst("reader: no other model is renamed aside before the load is known to succeed")
    cls_ = ctx.cls("serializer_6:RenameParser")
    at_parse = norm(cls_.consts.get("default_priority") or ast.Constant(0)) == "PriorityID.AT_PARSE"
    ro = [n_ for n_ in walk_local(rp.node) if isinstance(n_, ast.Dict) and any(
        isinstance(k_, ast.Constant) and k_.value == "rename_old" and isinstance(v_, ast.Constant) and v_.value is True
        for k_, v_ in zip(n_.keys, n_.values))]
    if at_parse and ro:
        R.bad(rp, rp.node, "the model being read takes its name while the file is still being parsed and moves an open model "
                           "of the same name aside (rename_old=True): if the load then fails, the partial model is closed "
                           "but the existing model stays renamed to <name>_BAK<n>", stmt="rename_old at parse time")
    # close path
    mc = ctx.func("Model.close")
    R.inst("Model.close -> System.close_model")
    if not q.calls(mc, name="close_model"):
        R.bad(mc, mc.node, "Model.close no longer delegates to System.close_model", stmt="close_model")
    cm = ctx.func("System.close_model")
    dels = [st for st, t in q.subscript_writes(cm, ("models", "_models")) if isinstance(st, ast.Delete)]
    pops = q.calls(cm, name="pop", recv_endswith="models") + q.calls(cm, name="pop", recv_endswith="_models")
    R.inst("System.close_model removes the registry entry unconditionally")
    rem = dels + pops
    if not rem:
        R.bad(cm, cm.node, "close_model does not remove the model from the registry", stmt="del self.models[...]")
    else:
        # the only way round the removal is the early return for a model that is not (any more) the one registered
        r_ = cm.cfg.reach([cm.cfg.entry], avoid=set(q.nodes_for(cm, rem)),
                          avoid_edges={(n_.id, "T") for n_ in cm.cfg.nodes if n_.kind == "test"
                                       and norm(n_.ast) == "self.models.get(model.name) is not model"})
        if cm.cfg.exit in r_:
            R.bad(cm, rem[0], "registry removal is conditional")
        for st in dels:
            key = st.targets[0].slice
            if q.rnorm(cm, key) != "model.name":
                R.bad(cm, st, "registry entry removed under a key other than model.name")
    R.inst("System.close_model resets currentmodel when it was the closed one")
    cw = [st for st, t in q.attr_writes(cm, attr="currentmodel")]
    if not cw:
        R.bad(cm, cm.node, "close_model leaves currentmodel pointing at the closed model", stmt="currentmodel")
    # serialize.read_model assigns path after the read
    mi = ctx.repo.module("modelx.serialize")
    rm = mi.funcs.get("read_model")
    R.need(rm is not None, "serialize.read_model not found")
    rd = q.calls(rm, name="read_model")
    R.must(len(rd) == 1, "serialize.read_model: reader call not found")
    R.inst("serialize.read_model: model.path assigned after reading")
    for st, t in q.attr_writes(rm, attr="path"):
        if not q.dominated(rm, rd, st):
            R.bad(rm, st, "path assigned before the model was read")


def _last_iteration_false(test, ivar, nname):
    """Is `test` (a Compare on the loop index) false on the last iteration i = N - 1 of `for i in range(N)`?
    Decided for  i < N + c  /  i <= N + c  /  i != N + c  /  N + c > i ...  with an integer c; None if unknown."""
    if not (isinstance(test, ast.Compare) and len(test.ops) == 1):
        return None
    l, op, r = test.left, test.ops[0], test.comparators[0]

    def lin(e):     # -> (coefficient of N, constant) for i -> treated separately
        if isinstance(e, ast.Name) and e.id == nname:
            return (1, 0)
        if isinstance(e, ast.Constant) and isinstance(e.value, int):
            return (0, e.value)
        if isinstance(e, ast.BinOp) and isinstance(e.op, (ast.Add, ast.Sub)):
            a, b = lin(e.left), lin(e.right)
            if a is None or b is None:
                return None
            s = 1 if isinstance(e.op, ast.Add) else -1
            return (a[0] + s * b[0], a[1] + s * b[1])
        return None
    if isinstance(l, ast.Name) and l.id == ivar:
        e = lin(r)
        flip = False
    elif isinstance(r, ast.Name) and r.id == ivar:
        e = lin(l)
        flip = True
    else:
        return None
    if e is None or e[0] != 1:
        return None
    c = e[1]                      # the other side is N + c ; i = N - 1  ->  compare -1 with c
    table = {ast.Lt: -1 < c, ast.LtE: -1 <= c, ast.Gt: -1 > c, ast.GtE: -1 >= c, ast.NotEq: -1 != c, ast.Eq: -1 == c}
    if flip:
        table = {ast.Lt: c < -1, ast.LtE: c <= -1, ast.Gt: c > -1, ast.GtE: c >= -1, ast.NotEq: -1 != c, ast.Eq: -1 == c}
    v = table.get(type(op))
    return None if v is None else (not v)


@rule("C14.R6", "C14", "DOM", "a failed write into the archive is never swallowed", min_instances=1, also=("C04",))
def r6(ctx, R):
    """In modelx.serialize.ziputil every `except` handler ends in `raise` on every path, except the
    `continue` of a bounded retry loop `for i in range(N)` whose guard is false on the last iteration
    (so the last failure is re-raised).  A swallowed error lets write_model move an incomplete archive
    over the destination and report success."""
    n = 0
    zmod = ctx.repo.module("modelx.serialize.ziputil")
    for f in zmod.all_funcs:
        for t in q.tries(f):
            for h in t.handlers:
                n += 1
                R.inst("%s: handler `except %s` re-raises" % (f.short, norm(h.type) if h.type is not None else ""))
                lp = enclosing_for(f, t)
                ivar = nname = None
                if isinstance(lp, ast.For) and isinstance(lp.target, ast.Name) and isinstance(lp.iter, ast.Call) \
                        and norm(lp.iter.func) == "range" and len(lp.iter.args) == 1 and isinstance(lp.iter.args[0], ast.Name):
                    ivar, nname = lp.target.id, lp.iter.args[0].id
                # exits of the handler body
                ends = []

                def walk(body, guards):
                    for i_, st in enumerate(body):
                        last = i_ == len(body) - 1
                        if isinstance(st, ast.Raise):
                            return
                        if isinstance(st, (ast.Continue, ast.Break, ast.Return)):
                            ends.append((st, list(guards)))
                            return
                        if isinstance(st, ast.If):
                            walk(st.body, guards + [(st.test, True)])
                            walk(st.orelse or [ast.Pass()], guards + [(st.test, False)])
                            if all(_terminates(b) for b in (st.body, st.orelse or [])):
                                return
                            continue
                        if last:
                            ends.append((st, list(guards)))
                    if not body:
                        ends.append((None, list(guards)))

                def _terminates(body):
                    return bool(body) and isinstance(body[-1], (ast.Raise, ast.Continue, ast.Break, ast.Return)) or \
                        bool(body) and isinstance(body[-1], ast.If) and body[-1].orelse and \
                        _terminates(body[-1].body) and _terminates(body[-1].orelse)
                walk(h.body, [])
                for st, guards in ends:
                    if isinstance(st, ast.Continue) and ivar is not None:
                        ok = any(pol and _last_iteration_false(tst, ivar, nname) is True for tst, pol in guards) or \
                            any((not pol) and _last_iteration_false(tst, ivar, nname) is False for tst, pol in guards)
                        if ok:
                            continue
                        R.bad(f, st, "the retry loop also retries after the last attempt: the final failure is not re-raised, "
                                     "the file is silently missing from the archive")
                    else:
                        R.bad(f, st if st is not None else h, "a failed archive operation is swallowed: the save goes on and reports success")
    R.need(n >= 1, "expected >=1 exception handler in ziputil, found %d" % n)
