"""Helpers shared by several property modules."""
import ast

from ..astutil import dotted, call_name, call_recv, norm, walk_local
from .. import q

GRAPH_MUTATORS = frozenset("""add_edge add_node add_nodes_from add_edges_from remove_node
remove_nodes_from remove_edge remove_edges_from clear remove_with_descs clear_obj
remove_with_referred add_path update add_weighted_edges_from""".split())
GRAPH_READERS = frozenset("""has_node predecessors successors get_nodes_with get_startnodes_from
nodes edges subgraph in_edges out_edges out_degree in_degree degree descendants""".split())


def local_aliases(fi):
    """local name -> dotted text of the attribute it was assigned from (single assignment)."""
    out = {}
    multi = set()
    for n in walk_local(fi.node):
        if isinstance(n, ast.Assign) and len(n.targets) == 1 and isinstance(n.targets[0], ast.Name):
            nm = n.targets[0].id
            d = dotted(n.value) if isinstance(n.value, (ast.Attribute, ast.Name)) else None
            if nm in out or nm in multi:
                multi.add(nm)
                out.pop(nm, None)
            elif d:
                out[nm] = d
    return out


def expand_alias(text, aliases, depth=4):
    """'graph' -> 'cells.model.tracegraph' through chains of single-assignment locals."""
    if text is None:
        return None
    for _ in range(depth):
        head, _, rest = text.partition(".")
        if head in aliases and aliases[head] != head:
            text = aliases[head] + ("." + rest if rest else "")
        else:
            break
    return text


def graph_kind_of(recv_text, aliases):
    """'trace' | 'ref' | None for a receiver text like 'cells.model.tracegraph' or a local."""
    if recv_text is None:
        return None
    t = expand_alias(recv_text, aliases)
    last = t.split(".")[-1]
    if last == "tracegraph":
        return "trace"
    if last == "refgraph":
        return "ref"
    return None


def graph_ops(fi, names=None):
    """[(call, kind, opname)] for calls on the model's trace / reference graph in fi."""
    al = local_aliases(fi)
    out = []
    for c in q.calls(fi):
        nm = call_name(c)
        if names is not None and nm not in names:
            continue
        k = graph_kind_of(call_recv(c), al)
        if k is None and fi.cls is not None and call_recv(c) == "self":
            if fi.cls.name == "TraceGraph":
                k = "trace"
            elif fi.cls.name == "ReferenceGraph":
                k = "ref"
        if k is not None:
            out.append((c, k, nm))
    return out


def assigned_value(fi, name):
    """Values assigned to local `name` in fi (list of ast exprs, tuple-unpacking aware)."""
    out = []
    for n in walk_local(fi.node):
        if isinstance(n, ast.Assign) and len(n.targets) == 1:
            t, v = n.targets[0], n.value
            if isinstance(t, ast.Name) and t.id == name:
                out.append(v)
            elif isinstance(t, ast.Tuple) and isinstance(v, ast.Tuple) and len(t.elts) == len(v.elts):
                for a, b in zip(t.elts, v.elts):
                    if isinstance(a, ast.Name) and a.id == name:
                        out.append(b)
    return out


def kw(call, name):
    for k in call.keywords:
        if k.arg == name:
            return k.value
    return None


def arg(call, pos, name):
    if len(call.args) > pos and not any(isinstance(a, ast.Starred) for a in call.args[:pos + 1]):
        return call.args[pos]
    return kw(call, name)


def is_cached_test(e):
    """A test operand reading `<x>.is_cached` (plain attribute truth test)."""
    return isinstance(e, ast.Attribute) and e.attr == "is_cached"


def enclosing_stmt(fi, node):
    pm = fi.pm
    n = node
    while not isinstance(n, ast.stmt):
        n = pm[n]
    return n


def enclosing_for(fi, node):
    """The loop in whose *body* `node` is executed (a node inside the iterable / test of a loop belongs
    to the enclosing one)."""
    pm = fi.pm
    child, n = node, pm.get(node)
    while n is not None and n is not fi.node:
        if isinstance(n, (ast.For, ast.While)):
            head = n.iter if isinstance(n, ast.For) else n.test
            if not any(x is child for x in ast.walk(head)) and child is not getattr(n, "target", None):
                return n
        child, n = n, pm.get(n)
    return None


def source_changed_guards(fi):
    """Texts (resolved spelling) of the tests in `fi` that compare the formula source read *before*
    `formula._reload(...)` with the source it returns: `<old> != <new>` in either order, whatever the
    locals are called."""
    out = set()
    for n in fi.cfg.nodes:
        e = n.ast if n.kind == "test" else None
        if isinstance(e, ast.Compare) and len(e.ops) == 1 and isinstance(e.ops[0], ast.NotEq):
            a, b = q.origin(fi, e.left), q.origin(fi, e.comparators[0])
            ta, tb = norm(a), norm(b)
            pair = {ta.endswith(".formula.source") and "_reload(" not in ta, "_reload(" in tb and tb.endswith(".source")}
            pair2 = {tb.endswith(".formula.source") and "_reload(" not in tb, "_reload(" in ta and ta.endswith(".source")}
            if pair == {True} or pair2 == {True}:
                out.add(q.anorm(fi, e))
                out.add(norm(e))
    return out


def new_cells_validates_name(ctx):
    """True when SpaceManager.new_cells can reach its `UserCellsImpl(name=name, ...)` construction only with a
    name that passed is_valid_name or was drawn from the auto-namer: then CellsImpl.__init__'s own fallback
    naming is unreachable with an invalid name (all other constructions pass a base or a base's name)."""
    nc = ctx.func("SpaceManager.new_cells")
    mk = [c for c in q.calls(nc, name="UserCellsImpl") if kw(c, "base") is None and norm(kw(c, "name") or ast.Constant(0)) == "name"]
    if not mk:
        return False
    namer = [n_ for n_ in walk_local(nc.node) if isinstance(n_, ast.Assign) and norm(n_.targets[0]) == "name"
             and isinstance(n_.value, ast.Call) and call_name(n_.value) == "get_next"]
    cfg = nc.cfg
    reach = cfg.reach([cfg.entry], avoid=set(q.nodes_for(nc, namer)),
                      avoid_edges={(n_.id, "T") for n_ in cfg.nodes if n_.kind == "test" and norm(n_.ast) == "is_valid_name(name)"})
    if any(i in reach for i in q.nodes_for(nc, mk[0])):
        return False
    # no other construction hands over a free name
    for f in ctx.repo.all_funcs(modules=["modelx.core"]):
        for c in q.calls(f, name=("UserCellsImpl", "CellsImpl", "DynamicCellsImpl")):
            if f is nc and c in mk:
                continue
            if kw(c, "base") is None and norm(kw(c, "is_derived") or ast.Constant(0)) != "True":
                return False
    return True
