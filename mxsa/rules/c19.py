"""C19 - model registry: unique names, no model dropped, models isolated."""
import ast

from ..framework import rule
from ..astutil import dotted, call_name, call_recv, norm, walk_local, unparse
from .. import q
from .common import assigned_value, kw, arg
from . import c18   # C18.R4 (IO registry is keyed and searched per model) is listed for C19 too

META = {
    "explanation": (
        "Decides the structural clauses behind C19: (R1) who writes the registry; (R2) every "
        "registry write keys the model by the name it has just been given; (R3) every write is "
        "dominated by a taken-name test whose positive outcome renames the existing model aside "
        "(backup name drawn from a namer that is given the registry), and ModelImpl.rename "
        "refuses taken names; (R4) ModelImpl.name is written only by ModelImpl.rename, called "
        "only by System.rename_model, and closing removes exactly model.name after releasing its "
        "specs; (R5) the per-model classes have no mutable class-level state or mutable default "
        "arguments and each ModelImpl constructs its own managers and graphs."),
    "not_decided": ["isolation of *values* between models that reference each other (runtime)"],
    "assumptions": ["the registry is reached as <system>.models / <system>._models only"],
}

REG_WRITERS = {"System.new_model", "System.rename_model", "System.close_model"}
PER_MODEL = ["ModelImpl", "SpaceManager", "SharedSpaceOperations", "SpaceUpdater", "ReferenceManager",
             "TraceGraph", "ReferenceGraph", "SpaceGraph", "TraceManager", "UserSpaceImpl",
             "BaseSpaceImpl", "DynamicBase", "CellsImpl", "UserCellsImpl", "ReferenceImpl", "ItemSpaceParent",
             "EditableParentImpl", "InstructionList", "Instruction"]


def _is_registry(expr):
    d = dotted(expr)
    return d is not None and d.split(".")[-1] in ("models", "_models") and (
        d.startswith("self") or "system" in d or "mxsys" in d)


@rule("C19.R1", "C19", "WMC", "who writes the model registry", min_instances=4)
def r1(ctx, R):
    """`<system>.models[...] =`, `del <system>.models[...]`, `.pop/.clear/.update/...` occur
    only in System.new_model / rename_model / close_model; `_models` is assigned in __init__."""
    n = 0
    for f in ctx.repo.all_funcs():
        if f.module.name.startswith("modelx.export"):
            continue
        for st, t in q.subscript_writes(f, ("models", "_models")):
            if not _is_registry(t.value):
                continue
            n += 1
            R.inst("registry write `%s` in %s" % (norm(st)[:60], f.short))
            if f.short not in REG_WRITERS:
                R.bad(f, st, "model registry written outside System.new_model/rename_model/close_model")
        for c in q.calls(f, name=("pop", "clear", "update", "setdefault", "popitem", "__setitem__", "__delitem__")):
            if c.func.value is not None and _is_registry(c.func.value):
                n += 1
                R.inst("registry call `%s` in %s" % (norm(c)[:60], f.short))
                if f.short not in REG_WRITERS:
                    R.bad(f, c, "model registry mutated outside System.new_model/rename_model/close_model")
        for st, t in q.attr_writes(f, attr="_models"):
            n += 1
            R.inst("assignment of _models in %s" % f.short)
            if f.short != "System.__init__":
                R.bad(f, st, "registry replaced outside System.__init__")
    R.need(n >= 4, "expected >=4 registry write sites, found %d" % n)
    mp = ctx.func("System.models")
    R.inst("System.models returns self._models")
    rr = q.returns(mp)
    if len(rr) != 1 or norm(rr[0].value) != "self._models":
        R.bad(mp, mp.node, "models property is not the registry itself", stmt="return")


@rule("C19.R2", "C19", "FLOW", "every registry write keys the model by its current name", min_instances=3, also=("C14",))
def r2(ctx, R):
    """new_model: models[currentmodel.name] = currentmodel; rename_model: models[new_name] =
    models.pop(old_name) only where ModelImpl.rename(new_name) returned true; close_model:
    del models[model.name]."""
    nm = ctx.func("System.new_model")
    ws = [st for st, t in q.subscript_writes(nm, ("models", "_models")) if isinstance(st, ast.Assign)]
    R.inst("new_model: models[<m>.name] = <m>")
    if len(ws) != 1:
        R.bad(nm, nm.node, "new_model does not register the model exactly once", stmt="models[...] =")
    else:
        k, v = q.rnorm(nm, ws[0].targets[0].slice), q.rnorm(nm, ws[0].value)
        if k not in (v + ".name",) and not (k.endswith(".name") and k[:-5] == v):
            R.bad(nm, ws[0], "model registered under `%s`, which is not the name of `%s`" % (k, v))
        mk = [c for c in q.calls(nm, name="ModelImpl")]
        if len(mk) != 1 or not q.dominated(nm, mk, ws[0]):
            R.bad(nm, ws[0], "registered object is not the model just created")
        elif norm(kw(mk[0], "name") or ast.Constant(0)) != "name" or norm(kw(mk[0], "system") or ast.Constant(0)) != "self":
            R.bad(nm, mk[0], "model is not created with the requested name in this system")
    rm = ctx.func("System.rename_model")
    ws = [st for st, t in q.subscript_writes(rm, ("models", "_models")) if isinstance(st, ast.Assign)]
    R.inst("rename_model: models[new_name] = models.pop(old_name) under a true result of rename(new_name)")
    if len(ws) != 1:
        R.bad(rm, rm.node, "rename_model does not re-key exactly once", stmt="models[...] =")
    else:
        st = ws[0]
        if norm(st.targets[0].slice) != "new_name" or norm(st.value) not in ("self.models.pop(old_name)", "self._models.pop(old_name)"):
            R.bad(rm, st, "re-keying is not models[new_name] = models.pop(old_name)")
        RN = ("self.models[old_name].rename(new_name)", "self._models[old_name].rename(new_name)")
        okr = any(norm(c_) in RN for c_ in q.calls(rm, name="rename"))
        refused = q.run_abstract(rm, lambda e: "F" if norm(e) in RN else None)
        accepted = q.run_abstract(rm, lambda e: "T" if norm(e) in RN else None)
        if not okr or any(i in refused for i in q.nodes_for(rm, st)) or not any(i in accepted for i in q.nodes_for(rm, st)):
            R.bad(rm, st, "registry is re-keyed although the model refused the new name (entry would "
                          "overwrite the model that owns that name)")
        R.inst("rename_model: returns True exactly when re-keyed")
        for r_ in q.returns(rm):
            if isinstance(r_.value, ast.Constant) and r_.value.value is True and not q.dominated(rm, [st], r_):
                R.bad(rm, r_, "reports success without re-keying")
    cm = ctx.func("System.close_model")
    dels = [st for st, t in q.subscript_writes(cm, ("models", "_models")) if isinstance(st, ast.Delete)]
    R.inst("close_model: del models[model.name], only while that entry is this very model")
    if len(dels) != 1 or q.rnorm(cm, dels[0].targets[0].slice) != "model.name":
        R.bad(cm, cm.node, "close_model does not remove exactly the entry of the closed model", stmt="del models[...]")
    elif ("self.models.get(model.name) is not model", "F") not in q.guards_of(cm, dels[0]):
        R.bad(cm, dels[0], "closing a stale handle removes whatever model is registered under that name now "
                           "(a = new_model('A'); a.close(); new_model('A'); a.close())")


@rule("C19.R3", "C19", "DOM", "every registry write is dominated by a taken-name test", min_instances=7, also=("C14",))
def r3(ctx, R):
    """new_model: `name in self.models` true -> _rename_samename(name) before the model is
    created; ModelImpl.rename: name assigned and True returned only under is_valid_name and
    `name not in system.models`; _rename_samename draws the backup name from a namer that is
    given the registry and raises if the rename failed; AutoNamer.get_next retries while taken;
    ModelImpl.__init__ takes an auto-name avoiding the registry or a validated name."""
    nm = ctx.func("System.new_model")
    rs = q.calls(nm, name="_rename_samename")
    mk = q.calls(nm, name="ModelImpl")
    R.inst("new_model: existing model of that name is renamed aside before creation")
    if len(rs) != 1 or not mk:
        R.bad(nm, nm.node, "new_model does not move an existing model of the same name aside", stmt="_rename_samename")
    else:
        g = q.guards_of(nm, rs[0])
        if not (("name in self.models", "T") in g or ("name in self._models", "T") in g):
            R.bad(nm, rs[0], "renaming aside is not triggered by `name in self.models`")
        if [norm(a) for a in rs[0].args] != ["name"]:
            R.bad(nm, rs[0], "a model other than the one owning the name is renamed aside")
        # on the taken path the rename precedes creation
        tn = q.test_nodes(nm, lambda e: norm(e) in ("name in self.models", "name in self._models"))
        cfg = nm.cfg
        r = cfg.reach([cfg.entry], avoid=set(q.nodes_for(nm, rs[0])), avoid_edges={(t, "F") for t in tn})
        if any(i in r for i in q.nodes_for(nm, mk[0])):
            R.bad(nm, mk[0], "a model can be created under a taken name without renaming the owner aside "
                             "(the existing model is dropped from the registry)")
        if not tn or not cfg.must_pass(tn, q.nodes_for(nm, mk[0])[0]):
            R.bad(nm, mk[0], "taken-name test does not dominate model creation")
    rm = ctx.func("System.rename_model")
    R.inst("rename_model: rename_old moves the owner of new_name aside first")
    rs = q.calls(rm, name="_rename_samename")
    ren = q.calls(rm, name="rename")
    if len(rs) != 1 or [norm(a) for a in rs[0].args] != ["new_name"]:
        R.bad(rm, rm.node, "rename_old does not move the owner of the new name aside", stmt="_rename_samename")
    else:
        g = q.guards_of(rm, rs[0])
        if ("rename_old", "T") not in g or not any(t in ("new_name in self.models", "new_name in self._models") and l == "T" for t, l in g):
            R.bad(rm, rs[0], "moving aside is not under (rename_old and new_name in models)")
        if ren and q.path_between(rm, ren[0], rs[0]):
            R.bad(rm, rs[0], "owner is moved aside after the rename was attempted")
    R.inst("rename_model: identical names are a no-op")
    if not any(norm(n.ast) == "new_name == old_name" for n in rm.cfg.nodes if n.kind == "test"):
        R.bad(rm, rm.node, "renaming a model to its own name is not short-circuited "
                           "(models.pop(old) then models[new] would still work, but rename() refuses)", stmt="new_name == old_name")
    mr = ctx.func("ModelImpl.rename")
    R.inst("ModelImpl.rename: name assigned and True returned only for a valid, free name")
    ws = [st for st, t in q.attr_writes(mr, attr="name", recv="self")]
    trues = [r_ for r_ in q.returns(mr) if isinstance(r_.value, ast.Constant) and r_.value.value is True]
    if len(ws) != 1 or len(trues) != 1:
        R.bad(mr, mr.node, "rename does not assign the name once and return True once", stmt="self.name = name")
    else:
        for x in (ws[0], trues[0]):
            g = q.guards_of(mr, x)
            if ("is_valid_name(name)", "T") not in g or ("name not in self.system.models", "T") not in g \
                    and ("name in self.system.models", "F") not in g:
                R.bad(mr, x, "a taken or invalid name can be accepted")
        if norm(ws[0].value) != "name":
            R.bad(mr, ws[0], "assigned name is not the requested one")
        if not q.dominated(mr, [ws[0]], trues[0]):
            R.bad(mr, trues[0], "success reported without assigning the name")
    R.inst("ModelImpl.rename: False/raise otherwise")
    falses = [r_ for r_ in q.returns(mr) if isinstance(r_.value, ast.Constant) and r_.value.value is False]
    if not falses or not q.raises(mr, "ValueError"):
        R.bad(mr, mr.node, "rename neither refuses a taken name with False nor an invalid one with ValueError", stmt="refusal")
    sn = ctx.func("System._rename_samename")
    R.inst("_rename_samename: backup name from a namer that is given the registry; failure raises")
    gv = assigned_value(sn, "backupname")
    okb = len(gv) == 1 and isinstance(gv[0], ast.Call) and call_name(gv[0]) == "get_next" and gv[0].args \
        and norm(gv[0].args[0]) in ("self.models", "self._models") and norm(kw(gv[0], "prefix") or ast.Constant(0)) == "name"
    rc = q.calls(sn, name="rename_model")
    if not okb or len(rc) != 1 or [norm(a) for a in rc[0].args] != ["backupname", "name"]:
        R.bad(sn, sn.node, "existing model is not renamed to a free '<name>_BAK<n>'", stmt="_rename_samename")
    elif not q.raises(sn):
        R.bad(sn, sn.node, "a failed rename-aside is ignored (the existing model would be overwritten)", stmt="raise")
    an = ctx.func("AutoNamer.get_next")
    R.inst("AutoNamer.get_next retries while the candidate is taken")
    rec = q.calls(an, name="get_next", recv="self")
    if not rec or ("result in existing_names", "T") not in q.guards_of(an, rec[0]):
        R.bad(an, an.node, "auto-namer can return a name that is already taken", stmt="retry")
    else:
        for r_ in q.returns(an):
            if norm(r_.value) == "result" and ("result in existing_names", "F") not in q.guards_of(an, r_):
                R.bad(an, r_, "auto-namer returns the candidate without testing it")
    mi = ctx.func("ModelImpl.__init__")
    R.inst("ModelImpl.__init__: auto-name avoids the registry, explicit name is validated")
    gv = assigned_value(mi, "name")
    okn = any(isinstance(v, ast.Call) and call_name(v) == "get_next" and v.args and norm(v.args[0]) == "system.models" for v in gv)
    rz = q.raises(mi, "ValueError")
    if not okn or not rz or ("is_valid_name(name)", "F") not in q.guards_of(mi, rz[0]):
        R.bad(mi, mi.node, "model name is neither auto-generated against the registry nor validated", stmt="name")


@rule("C19.R4", "C19", "WMC", "ModelImpl.name is written only through the registry; close releases then removes",
      min_instances=4)
def r4(ctx, R):
    """ModelImpl.rename is called only by System.rename_model; Model.rename delegates to it with
    its own current name; close_model releases the specs before removing the entry and resets
    currentmodel."""
    callers = []
    for f in ctx.repo.all_funcs(modules=["modelx.core"]):
        for c in q.calls(f, name="rename"):
            r = norm(c.func.value)
            if "models[" in r:
                callers.append((f, c))
    R.inst("ModelImpl.rename callers: %s" % sorted({f.short for f, _ in callers}))
    for f, c in callers:
        if f.short != "System.rename_model":
            R.bad(f, c, "ModelImpl.rename called outside System.rename_model: name and registry key diverge")
    for f in ctx.repo.all_funcs(modules=["modelx.core"]):
        if f.cls is not None and f.cls.name == "ModelImpl":
            for st, t in q.attr_writes(f, attr="name", recv="self"):
                R.inst("write of ModelImpl.name in %s" % f.short)
                if f.short != "ModelImpl.rename":
                    R.bad(f, st, "model name written outside ModelImpl.rename")
    mr = ctx.func("Model.rename")
    c = q.calls(mr, name="rename_model")
    R.inst("Model.rename -> system.rename_model(new_name=name, old_name=self.name, rename_old=rename_old)")
    if len(c) != 1 or norm(kw(c[0], "new_name") or ast.Constant(0)) != "name" \
            or norm(kw(c[0], "old_name") or ast.Constant(0)) != "self.name" \
            or norm(kw(c[0], "rename_old") or ast.Constant(0)) != "rename_old":
        R.bad(mr, mr.node, "Model.rename does not rename itself through the registry", stmt="rename_model")
    else:
        # the registry is keyed by name: the handle must own the entry of its name before it acts by name
        own = [r_ for r_ in q.raises(mr) if any(
            q.anorm(mr, ast.parse(t, mode="eval").body).replace(" ", "") in
            ("self._impl.system.models.get(self.name)isnotself._impl", "self._impl.system.models.get(self.name)isself._impl")
            for t, l in q.guards_of(mr, r_))]
        g = q.guards_of(mr, c[0])
        if not own or q.path_between(mr, c[0], own[0]) or not any("models.get(self.name)" in t for t, l in g):
            R.bad(mr, c[0], "a handle of a closed model acts on whichever open model now has its name: rename() on the old handle "
                            "renames the other model")
    cm = ctx.func("System.close_model")
    rel = q.calls(cm, name="del_all_spec")
    dels = [st for st, t in q.subscript_writes(cm, ("models", "_models")) if isinstance(st, ast.Delete)]
    R.inst("close_model: specs released before the entry is removed; currentmodel reset only if it is the closed one")
    if not rel or not dels or not q.dominated(cm, rel, dels[0]):
        R.bad(cm, cm.node, "closing does not release the model's IOSpecs before removing it", stmt="del_all_spec")
    cw = [st for st, t in q.attr_writes(cm, attr="currentmodel", recv="self")]
    if cw and ("self.currentmodel is model", "T") not in q.guards_of(cm, cw[0]):
        R.bad(cm, cw[0], "closing any model resets the current model")
    api = ctx.repo.module("modelx.core.api")
    R.inst("api.new_model -> System.new_model(name)")
    f = api.funcs.get("new_model")
    if f is None or not q.calls(f, name="new_model"):
        R.bad("modelx/core/api.py", None, "api.new_model does not go through the registry", stmt="new_model")


@rule("C19.R5", "C19", "WMC", "no mutable state shared between models", min_instances=20)
def r5(ctx, R):
    """Per-model classes have no class-level list/dict/set/deque/constructor value and no
    mutable default argument; ModelImpl.__init__ constructs its own SpaceManager,
    ReferenceManager, graphs and containers."""
    osp = ctx.func("UserCellsImpl.on_set_property")
    R.inst("UserCellsImpl.on_set_property: the formula that is installed is built here (NULL_FORMULA or a constructor call)")
    for st, t in q.attr_writes(osp, attr="formula", recv="self"):
        def _vals(e, depth=4):
            # values a local can hold: its assignments, conditional expressions distributed, locals chased
            out = []
            for v, _ in q.arms(osp, e):
                if isinstance(v, ast.Name) and depth and assigned_value(osp, v.id):
                    for x in assigned_value(osp, v.id):
                        out.extend(_vals(x, depth - 1))
                else:
                    out.append(v)
            return out
        vals = _vals(st.value)
        for v in vals:
            v = q.origin(osp, v)
            if norm(v) == "NULL_FORMULA":
                continue
            if isinstance(v, ast.Call) and v.args and norm(v.args[0]) == "func" and \
                    all(norm(a) in ("Formula", "func.__class__") for a, _ in q.arms(osp, v.func)):
                continue
            R.bad(osp, st, "the Formula object handed in is installed as it is: two cells (of two models) share one object, and "
                           "reload() of one rewrites the other's formula")
    ci_ = ctx.func("CellsImpl.__init__")
    R.inst("CellsImpl.__init__: a cells that is not derived gets its own Formula object (Formula._reload mutates in place)")
    for st, t in q.attr_writes(ci_, attr="formula", recv="self"):
        g = q.guards_of(ci_, st)
        if ("base", "T") in g:
            continue            # derived / dynamic cells share the base's formula by design (re-derived on every edit)
        v = st.value
        if not (isinstance(v, ast.Call) and (call_name(v) in ("Formula", "NullFormula", "__class__") or
                                             norm(v.func).endswith(".__class__"))):
            R.bad(ci_, st, "a cells takes over the Formula object it is given: a copy in another model shares it with its "
                           "source, and reload() of the source rewrites the copy's formula")
    def mutable(e):
        if isinstance(e, (ast.List, ast.Dict, ast.Set, ast.ListComp, ast.DictComp, ast.SetComp)):
            return True
        if isinstance(e, ast.Call):
            nm = dotted(e.func) or ""
            return nm.split(".")[-1] in ("list", "dict", "set", "deque", "defaultdict", "OrderedDict",
                                         "WeakValueDictionary", "DiGraph", "Graph", "AutoNamer") \
                or ctx.repo.has_cls(nm.split(".")[-1]) and nm[0].isupper()
        return False
    for cn in PER_MODEL:
        ci = ctx.cls(cn)
        for name, e in ci.consts.items():
            if name in ("__slots__", "interface_cls") or name.endswith("__mixin_slots"):
                continue
            R.inst("%s.%s class attribute" % (cn, name))
            if mutable(e):
                R.bad("%s" % ci.module.relpath, e, "mutable class-level attribute %s.%s is shared by all models"
                      % (cn, name), stmt="%s.%s" % (cn, name))
        for key, f in ci.methods.items():
            a = f.node.args
            for d in list(a.defaults) + [x for x in a.kw_defaults if x is not None]:
                R.inst("%s default `%s`" % (f.short, norm(d)))
                if mutable(d):
                    R.bad(f, d, "mutable default argument is shared between calls (and models)")
    mi = ctx.func("ModelImpl.__init__")
    for ctor in ("SpaceManager", "ReferenceManager", "RefDict", "SpaceDict", "ImplChainMap"):
        R.inst("ModelImpl.__init__ constructs its own %s" % ctor)
        if not q.calls(mi, name=ctor):
            R.bad(mi, mi.node, "ModelImpl does not construct its own %s" % ctor, stmt=ctor)
    R.inst("ModelImpl.__init__ initialises its own graphs (TraceManager.__init__)")
    if not [c for c in q.calls(mi, name="__init__") if call_recv(c) == "TraceManager"]:
        R.bad(mi, mi.node, "trace/reference graphs are not created per model", stmt="TraceManager.__init__")
    tm = ctx.func("TraceManager.__init__")
    for fld, ctor in (("tracegraph", "TraceGraph"), ("refgraph", "ReferenceGraph")):
        R.inst("TraceManager.__init__: self.%s = %s()" % (fld, ctor))
        ws = [st for st, t in q.attr_writes(tm, attr=fld, recv="self")]
        if len(ws) != 1 or norm(ws[0].value) != ctor + "()":
            R.bad(tm, tm.node, "%s is not a fresh %s per model" % (fld, ctor), stmt=fld)
    sm = ctx.func("SharedSpaceOperations.__init__")
    R.inst("SharedSpaceOperations.__init__: self._graph = SpaceGraph(); self.model = model")
    ws = {t.attr: norm(st.value) for st, t in q.attr_writes(sm, recv="self")}
    if ws.get("_graph") != "SpaceGraph()" or ws.get("model") != "model":
        R.bad(sm, sm.node, "inheritance graph is not per model", stmt="_graph")
    rmg = ctx.func("ReferenceManager.__init__")
    ws = {t.attr: norm(st.value) for st, t in q.attr_writes(rmg, recv="self")}
    R.inst("ReferenceManager.__init__: own _valid_to_refs, own model")
    if ws.get("_valid_to_refs") != "{}" or ws.get("_model") != "model":
        R.bad(rmg, rmg.node, "value registry is not per model", stmt="_valid_to_refs")
    up = ctx.func("ModelImpl.updater")
    R.inst("ModelImpl.updater: a fresh SpaceUpdater(self.spmgr) per operation")
    rr = q.returns(up)
    if len(rr) != 1 or norm(rr[0].value) != "SpaceUpdater(self.spmgr)":
        R.bad(up, up.node, "updater is not a fresh SpaceUpdater over this model's manager", stmt="return")
