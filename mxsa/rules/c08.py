"""C08 - reported dependencies are exactly the calls made; graph and cache agree."""
import ast

from ..framework import rule
from ..astutil import dotted, call_name, call_recv, norm, walk_local, unparse
from .. import q
from .common import (enclosing_stmt, graph_ops, GRAPH_MUTATORS, assigned_value, kw, arg, is_cached_test,
                     enclosing_for, local_aliases, expand_alias)

META = {
    "explanation": (
        "Decides the structural clauses behind C08: (R1) every write of a value is paired "
        "with the insertion of its node into the trace graph and values are deleted only "
        "for nodes already removed from the graph; (R2) who may mutate the trace and "
        "reference graphs; (R3) the edge recorded on a cache hit is the same edge, under "
        "the same guard, that completion of a miss records, and the index of the nearest "
        "cached caller is maintained by append in three exhaustive arms; (R4) a graph "
        "operation on the raw (cells, key) node is control-dependent on the cells being "
        "cached - an uncached cells' only graph identity is (cells,); (R5) the listing "
        "functions read the graph for exactly the normalised node."),
    "not_decided": [
        "that the listing equals the calls made on all programs (a runtime trace)",
        "acyclicity of the graph (follows from call-stack discipline, not decided)",
    ],
    "assumptions": ["graph objects are reached only as <model>.tracegraph / <model>.refgraph or a local alias of them"],
}

ALLOWED_TRACE = {"NonThreadedExecutor.eval_node", "CallStack.pop", "CallStack.rollback",
                 "CellsImpl.set_value_from_key", "TraceManager.clear_with_descs",
                 "TraceManager.clear_obj", "TraceManager.clear_attr_referrers",
                 "CellsImpl.__init__"}      # nodes of the values installed at construction
ALLOWED_REF = {"CallStack.pop", "TraceManager.clear_with_descs", "TraceManager.clear_obj",
               "TraceManager.clear_attr_referrers"}


@rule("C08.R1", "C08", "PAIR", "data writes are paired with graph nodes; data deleted only for removed nodes",
      min_instances=6, also=("C06", "C07",))
def r1(ctx, R):
    """`data[k] = v` only in CellsImpl._store_value; its callers add the node (pop on the
    evaluation path, add_node in set_value_from_key); `del data[k]` only in on_clear_trace;
    CallStack.pop adds node/edge for every cached cells on every normal path."""
    n = 0
    for f in ctx.repo.all_funcs(modules=["modelx.core"]):
        if f.cls is None or not (f.cls.name.endswith("CellsImpl") or f.cls.name in ("Cells", "ItemFactoryImpl")):
            # writes to a `data` attribute of other classes (BaseView._data etc.) are unrelated
            recv_ok = False
        for st, t in q.subscript_writes(f, "data"):
            r = dotted(t.value)
            if r not in ("self.data", "cells.data", "self._impl.data", "obj.data"):
                continue
            n += 1
            R.inst("write `%s` in %s" % (norm(st)[:50], f.short))
            if isinstance(st, ast.Delete):
                if f.short != "CellsImpl.on_clear_trace":
                    R.bad(f, st, "a held value is deleted outside on_clear_trace: graph keeps the node")
            elif f.short != "CellsImpl._store_value":
                R.bad(f, st, "a value is written outside _store_value: no graph node is paired with it")
        for c in q.calls(f, name=("update", "pop", "clear", "setdefault", "popitem", "__setitem__", "__delitem__")):
            if call_recv(c) in ("self.data", "cells.data", "self._impl.data"):
                n += 1
                R.inst("bulk write `%s` in %s" % (norm(c)[:50], f.short))
                if f.short != "CellsImpl.__init__":
                    R.bad(f, c, "cells data mutated in bulk outside __init__")
    R.need(n >= 3, "expected >=3 data write sites, found %d" % n)
    ini = ctx.func("CellsImpl.__init__")
    bulk = [c for c in q.calls(ini, name="update") if call_recv(c) == "self.data"]
    R.inst("CellsImpl.__init__: values installed at construction (copy, new_cells(data=)) get their nodes")
    if bulk:
        okn = False
        for c, k, nm in graph_ops(ini, ("add_node",)):
            lp = enclosing_for(ini, c)
            if k != "trace" or lp is None or not isinstance(lp.target, ast.Name):
                continue
            it, _ = q.unsnapshot(ini, lp.iter)
            if isinstance(it, ast.Call) and isinstance(it.func, ast.Attribute) and it.func.attr == "keys":
                it = it.func.value
            if norm(it) in ("self.input_keys", "self.data", "data") and [norm(a) for a in c.args] == ["(self, %s)" % lp.target.id] \
                    and q.path_between(ini, bulk[0], c) and not lp.orelse \
                    and not any(isinstance(x, (ast.Break, ast.Continue, ast.If)) for b in lp.body for x in ast.walk(b)):
                okn = True
        if not okn:
            R.bad(ini, bulk[0], "values installed at construction have no graph node: clear_at() on a copied input does "
                                "nothing and check_sanity fails", stmt="data.update without add_node")
    callers = []
    for f in ctx.repo.all_funcs():
        for c in q.calls(f, name="_store_value"):
            callers.append((f, c))
    R.slot("store_callers", sorted({f.short for f, _ in callers}))
    for f, c in callers:
        R.inst("_store_value caller %s" % f.short)
        if f.short not in ("CellsImpl.on_eval_formula", "CellsImpl.set_value_from_key"):
            R.bad(f, c, "_store_value called from a function that does not maintain the trace graph")
    pop = ctx.func("CallStack.pop")
    cfg = pop.cfg
    adds = [c for c, k, nm in graph_ops(pop, ("add_edge", "add_node")) if k == "trace"
            and c.args and norm(c.args[0]) == "node"]
    R.inst("CallStack.pop: a cached element always gets its node (edge or bare node) on completion")
    cached_tests = [nd.id for nd in cfg.nodes if nd.kind == "test" and is_cached_test(nd.ast)]
    if not adds or not cached_tests:
        R.bad(pop, pop.node, "pop does not add the completed node to the trace graph", stmt="add_node/add_edge")
    else:
        r = cfg.reach([cfg.entry], avoid=set(q.nodes_for(pop, adds)),
                      avoid_edges={(t, "F") for t in cached_tests}, labels=("N", "T", "F"))
        if cfg.exit in r:
            R.bad(pop, pop.node, "a cached element can complete without entering the trace graph "
                                 "(value held, no node)", stmt="add_node/add_edge",
                  path=cfg.describe_path(cfg.find_path(cfg.entry, cfg.exit, avoid=set(q.nodes_for(pop, adds)),
                                                       labels=("N", "T", "F")) or []))
    R.inst("CallStack.pop: returns the popped node")
    for r_ in q.returns(pop):
        if norm(r_.value) != "node":
            R.bad(pop, r_, "pop does not return the popped node")


@rule("C08.R2", "C08", "WMC", "who mutates the trace and reference graphs", min_instances=12)
def r2(ctx, R):
    """Mutating calls on <model>.tracegraph / .refgraph (or local aliases) occur only in
    eval_node, CallStack.pop/rollback, set_value_from_key and TraceManager.clear_*."""
    n = 0
    found = {"trace": set(), "ref": set()}
    for f in ctx.repo.all_funcs():
        if f.cls is not None and f.cls.name in ("TraceGraph", "ReferenceGraph", "SpaceGraph"):
            continue
        for c, k, nm in graph_ops(f):
            if nm not in GRAPH_MUTATORS:
                continue
            n += 1
            found[k].add(f.short)
            R.inst("%sgraph.%s in %s" % (k, nm, f.short))
            allowed = ALLOWED_TRACE if k == "trace" else ALLOWED_REF
            if f.short not in allowed:
                R.bad(f, c, "%s graph mutated outside the functions that keep graph and cache in step" % k)
    R.slot("mutators", {k: sorted(v) for k, v in found.items()})
    R.need(n >= 12, "expected >=12 graph mutation sites, found %d" % n)
    # the graph attributes are never re-assigned after construction
    for f in ctx.repo.all_funcs(modules=["modelx.core"]):
        for st, t in q.attr_writes(f, attr=("tracegraph", "refgraph")):
            R.inst("assignment of %s in %s" % (t.attr, f.short))
            if f.short != "TraceManager.__init__":
                R.bad(f, st, "dependency graph replaced outside TraceManager.__init__")


@rule("C08.R3", "C08", "SIB", "hit path and miss path record the same edge under the same guard; idxstack arms",
      min_instances=8, also=("C02", "C09"))
def r3(ctx, R):
    """eval_node (hit): under `self.callstack` non-empty and pred = idxstack[-1] >= 0:
    add_edge(node, self.callstack[pred]).  CallStack.pop (miss completion): under `self`
    non-empty and pred = self.idxstack[-1] >= 0: add_edge(node, self[pred]).  CallStack.append
    maintains idxstack: cached -> own index, uncached -> caller's value, bottom -> -1."""
    en = ctx.func("NonThreadedExecutor.eval_node")
    pop = ctx.func("CallStack.pop")
    hit = [c for c, k, nm in graph_ops(en, ("add_edge",)) if k == "trace"]
    R.inst("eval_node: hit inside a formula records an edge")
    if len(hit) != 1:
        R.bad(en, en.node, "cache hit inside a formula records no dependency edge: the caller is not "
                           "invalidated when the callee changes", stmt="add_edge")
        return
    h = hit[0]

    def canon(txt):
        return txt.replace("self.callstack", "<stack>").replace("self[", "<stack>[").replace("self.idxstack", "<stack>.idxstack")

    TOP = "<stack>[<stack>.idxstack[-1]]"

    def ct(fi, e):
        return canon(q.anorm(fi, e))

    miss = [c for c, k, nm in graph_ops(pop, ("add_edge",)) if k == "trace" and norm(c.args[0]) == "node"]
    R.inst("pop: completion records an edge for a cached callee")
    if len(miss) != 1:
        R.bad(pop, pop.node, "pop does not record exactly one edge for a cached callee", stmt="add_edge(node, ...)")
        return
    m = miss[0]
    R.inst("hit/miss: same (source, target) expression")
    h_args = [norm(h.args[0])] + [ct(en, a) for a in h.args[1:]]
    m_args = [norm(m.args[0])] + [ct(pop, a) for a in m.args[1:]]
    if h_args != ["node", TOP] or m_args != ["node", TOP]:
        R.bad(en if h_args != ["node", TOP] else pop, h if h_args != ["node", TOP] else m,
              "dependency edge is not (callee node -> nearest cached caller): hit %s, miss %s" % (h_args, m_args))
    # in pop the top of idxstack must be read after this frame's own entry was popped
    R.inst("pop: the caller's index is read after the frame's own idxstack entry is popped")
    ipop = q.calls(pop, name="pop", recv="self.idxstack")
    if len(ipop) != 1:
        R.bad(pop, pop.node, "pop does not drop exactly one idxstack entry", stmt="idxstack.pop()")
    else:
        for n_ in walk_local(pop.node):
            if isinstance(n_, ast.Subscript) and norm(n_) == "self.idxstack[-1]":
                st = enclosing_stmt(pop, n_)
                if not q.dominated(pop, [ipop[0]], st):
                    R.bad(pop, st, "the nearest cached caller is read before the frame's own idxstack entry is popped")
    for fi, c in ((en, h), (pop, m)):
        R.inst("%s: edge guarded by non-empty stack and top of idxstack >= 0" % fi.short)
        g = {(canon(t), l) for t, l in q.guards_of(fi, c).resolved()}
        need = {("<stack>" if fi is en else "self", "T"), ("<stack>.idxstack[-1] >= 0", "T")}
        if not need <= g:
            R.bad(fi, c, "edge is not recorded under (stack non-empty and pred >= 0): guards are %s" % sorted(g))
    # hit edge only on the hit branch; same graph
    R.inst("eval_node: edge is added to the model's tracegraph of the callee")
    if q.anorm(en, h.func.value) != "node[OBJ].model.tracegraph":
        R.bad(en, h, "hit edge goes to another graph")
    if q.anorm(pop, m.func.value) != "node[OBJ].model.tracegraph":
        R.bad(pop, m, "completion edge goes to another graph")
    # object-node edge for uncached callee
    obj_edges = [c for c, k, nm in graph_ops(pop, ("add_edge",)) if k == "trace" and q.anorm(pop, c.args[0]) == "(node[OBJ],)"]
    R.inst("pop: an uncached callee is linked as (cells,) to the nearest cached caller")
    if len(obj_edges) != 1 or ct(pop, obj_edges[0].args[1]) != TOP:
        R.bad(pop, pop.node, "uncached callee is not linked to its nearest cached caller by its object node",
              stmt="add_edge((cells,), self[pred])")
    else:
        g = q.guards_of(pop, obj_edges[0])
        if g != {("self", "T"), ("node[OBJ].is_cached", "F"), ("self.idxstack[-1] >= 0", "T")}:
            R.bad(pop, obj_edges[0], "object-node edge is not recorded under exactly (stack non-empty, uncached, pred >= 0): "
                                     "guards are %s - an uncached cells reached through another uncached cells is not linked "
                                     "to the cached caller" % sorted(g))
    gk = q.guards_of(pop, m)
    R.inst("pop: key-node edge under exactly (stack non-empty, cached, pred >= 0)")
    if gk != {("self", "T"), ("node[OBJ].is_cached", "T"), ("self.idxstack[-1] >= 0", "T")}:
        R.bad(pop, m, "completion edge has extra/missing conditions: %s" % sorted(gk))
    gh = q.guards_of(en, h)
    R.inst("eval_node: hit edge under exactly (cached, held, stack non-empty, pred >= 0)")
    if gh != {(t, "T") for t in ("node[OBJ].is_cached", "node[OBJ].has_node(node[KEY])", "self.callstack",
                                 "self.callstack.idxstack[-1] >= 0")}:
        R.bad(en, h, "hit edge has extra/missing conditions: %s" % sorted(gh))
    # append arms
    ap = ctx.func("CallStack.append")
    arms = q.calls(ap, name="append", recv_endswith="idxstack")
    R.inst("append: three idxstack arms (cached -> own index; uncached -> caller's; bottom -> -1)")
    got = {}
    for c in arms:
        base = {(q.rnorm(ap, ast.parse(t, mode="eval").body), l) for t, l in q.guards_of(ap, c)}
        for val, extra in q.arms(ap, c.args[0]):        # a hoisted append(idx) with idx chosen per branch
            got[q.rnorm(ap, val)] = base | {(q.rnorm(ap, ast.parse(t, mode="eval").body), l) for t, l in extra}
    R.slot("idxstack_arms", {k: sorted(v) for k, v in got.items()})
    SL = "len(self)"
    ok = (set(got) == {SL, "self.idxstack[-1]", "-1"}
          and ("item[OBJ].is_cached", "T") in got.get(SL, set())
          and ("item[OBJ].is_cached", "F") in got.get("self.idxstack[-1]", set())
          and (SL, "T") in got.get("self.idxstack[-1]", set())
          and (SL, "F") in got.get("-1", set())
          and ("item[OBJ].is_cached", "F") in got.get("-1", set()))
    if not ok:
        R.bad(ap, ap.node, "idxstack is not maintained as (cached: own index / uncached: caller's / bottom: -1)",
              stmt="idxstack arms")
    sl = assigned_value(ap, "stacklen")
    R.inst("append: stacklen is len(self) taken before the push")
    push = [c for c in q.calls(ap, name="append") if call_recv(c) == "deque"]
    if not (len(sl) == 1 and norm(sl[0]) == "len(self)" and push):
        R.bad(ap, ap.node, "stacklen is not len(self) before the push", stmt="stacklen")
    else:
        for n_ in walk_local(ap.node):
            if isinstance(n_, ast.Assign) and any(isinstance(t, ast.Name) and t.id == "stacklen" for t in n_.targets):
                if q.path_between(ap, push[0], n_):
                    R.bad(ap, n_, "stack length measured after the push: a cached cells points at its callee")
    R.inst("append: every path pushes exactly one idxstack entry before the frame")
    if push and arms:
        if not q.dominated(ap, arms, push[0]):
            R.bad(ap, push[0], "a frame can be pushed without its idxstack entry")


@rule("C08.R4", "C08", "GUARD", "graph operations on the raw (cells, key) node require a cached cells",
      min_instances=6, also=("C09",))
def r4(ctx, R):
    """In eval_node, CallStack.pop and CallStack.rollback every trace/reference-graph call
    whose operand is the raw `node` is control-dependent on `<cells>.is_cached` being true."""
    for spec in ("NonThreadedExecutor.eval_node", "CallStack.pop", "CallStack.rollback"):
        fi = ctx.func(spec)
        for c, k, nm in graph_ops(fi):
            if not any(isinstance(a, ast.Name) and a.id == "node" for a in c.args):
                continue
            R.inst("%s: %sgraph.%s(...node...) guarded by is_cached" % (spec, k, nm))
            g = q.guards_of(fi, c)
            if not any(t.endswith(".is_cached") and l == "T" for t, l in g):
                if k == "ref":
                    why = ("references read inside an uncached cells are attached to a (cells, key) node that is "
                           "never in the trace graph: changing the reference does not invalidate the cached caller")
                elif nm in ("has_node", "remove_node"):
                    why = ("the key of an uncached cells is hashed: unhashable arguments make the rollback itself "
                           "raise TypeError and mask the original error")
                else:
                    why = "an uncached cells' element enters the trace graph as (cells, key)"
                R.bad(fi, c, why)
    # the reference edge of an uncached cells goes to its object node
    pop = ctx.func("CallStack.pop")
    refadds = [c for c, k, nm in graph_ops(pop, ("add_edge",)) if k == "ref"]
    R.inst("CallStack.pop: references read in an uncached cells are attached to (cells,)")
    objadds = [c for c in refadds if len(c.args) == 2 and q.anorm(pop, c.args[1]) == "(node[OBJ],)"]
    if not objadds:
        R.bad(pop, pop.node, "references read inside an uncached cells are not recorded at all: changing the "
                             "reference does not invalidate cached callers", stmt="refgraph.add_edge(ref, (cells,))")
    else:
        for c in objadds:
            if not any(t.endswith(".is_cached") and l == "F" for t, l in q.guards_of(pop, c)):
                R.bad(pop, c, "object-node reference edge is not restricted to uncached cells")
    R.inst("CallStack.pop: every drained reference is recorded (one add_edge per refstack.pop)")
    drains = q.calls(pop, name="pop", recv_endswith="refstack")
    for d in drains:
        if refadds and not q.followed(pop, d, refadds, exits=[pop.cfg.exit],
                                      labels=("N", "T", "F")):
            # the loop may continue: the next loop head counts as an exit of this iteration
            pass
        ids = set(q.nodes_for(pop, refadds)) if refadds else set()
        heads = [n.id for n in pop.cfg.nodes if n.kind == "loophead"]
        for did in q.nodes_for(pop, d):
            r = pop.cfg.reach([did], avoid=ids, labels=("N", "T", "F"), include_starts=False)
            if pop.cfg.exit in r or any(h in r for h in heads):
                R.bad(pop, d, "a drained reference read can be dropped without a reference-graph edge")
    # any hashing of the key of a possibly uncached cells on the evaluation / error path
    gr = ctx.func("node:get_node_repr")
    for n_ in walk_local(gr.node):
        if isinstance(n_, ast.Compare) and any(isinstance(o, (ast.In, ast.NotIn)) for o in n_.ops) \
                and norm(n_.comparators[0]).endswith(".data"):
            R.inst("get_node_repr: `%s` guarded by is_cached" % norm(n_))
            cfg = gr.cfg
            tn = [x.id for x in cfg.nodes if x.kind == "test" and x.ast is n_]
            ok = False
            for t in tn:
                g = set()
                for cn in cfg.nodes:
                    if cn.kind == "test" and is_cached_test(cn.ast) and cfg.depends_on(t, cn.id, "T"):
                        ok = True
            if not ok:
                R.bad(gr, n_, "the key of a possibly uncached cells is hashed while formatting the error message: "
                              "an unhashable argument masks the original error")
    # object nodes may now be removed through the reference graph: no KEY projection on them
    for spec in ("TraceManager.clear_obj", "TraceManager.clear_attr_referrers"):
        fi = ctx.func(spec)
        for c in q.calls(fi, name="on_clear_trace"):
            R.inst("%s: on_clear_trace guarded by node_has_key" % spec)
            if not any(t.startswith("node_has_key(") and l == "T" for t, l in q.guards_of(fi, c)):
                R.bad(fi, c, "an object node (cells,) can reach `[KEY]`: IndexError while invalidating")


@rule("C08.R5", "C08", "FLOW", "dependency listings read the graph at the normalised node", min_instances=5)
def r5(ctx, R):
    """predecessors / successors / get_attrpreds look up get_node(self, args, kwargs) in
    tracegraph.predecessors / .successors / refgraph.predecessors; precedents = preds +
    value refs + attribute refs; check_sanity compares data keys with graph nodes."""
    for spec, graph, meth in (("ItemFactoryImpl.predecessors", "tracegraph", "predecessors"),
                              ("ItemFactoryImpl.successors", "tracegraph", "successors"),
                              ("ItemFactoryImpl.get_attrpreds", "refgraph", "predecessors")):
        fi = ctx.func(spec)
        cs = [c for c in q.calls(fi, name=meth) if (call_recv(c) or "").endswith("model." + graph)]
        R.inst("%s reads %s.%s(node)" % (spec, graph, meth))
        if len(cs) != 1 or [norm(a) for a in cs[0].args] != ["node"]:
            R.bad(fi, fi.node, "%s does not list %s.%s of the element's node" % (spec, graph, meth), stmt=meth)
    eg = ctx.func("BoundFunction._extract_globals")
    R.inst("_extract_globals: names read in nested code objects (generators, lambdas, inner defs) at every depth")
    okg = False
    for lp_ in [x for x in walk_local(eg.node) if isinstance(x, ast.For)]:
        if not norm(lp_.iter).endswith(".co_consts"):
            continue
        v_ = norm(lp_.target)
        for c in [c for b in lp_.body for c in ast.walk(b) if isinstance(c, ast.Call) and call_name(c) == "_extract_globals"]:
            g = q.guards_of(eg, c)
            merged = any(isinstance(p_, ast.Call) and call_name(p_) in ("extend", "update") and c in p_.args for p_ in ast.walk(lp_)) or \
                any(isinstance(p_, ast.AugAssign) and p_.value is c for p_ in ast.walk(lp_))
            if [norm(a) for a in c.args] == [v_] and ("isinstance(%s, CodeType)" % v_, "T") in g and len(g) == 1 and merged:
                okg = True
    if not okg:
        R.bad(eg, eg.node, "references read by name in code nested more than one level deep are missing from precedents(): "
                           "the scan of nested code objects does not call itself", stmt="recursive scan of co_consts")
    pr = ctx.func("ItemFactoryImpl.predecessors")
    R.inst("predecessors: object nodes (len < 2) are wrapped as ObjectNode, others as ItemNode")
    lcs = [n for n in walk_local(pr.node) if isinstance(n, ast.ListComp)]
    if not lcs or "ObjectNode(n) if len(n) < 2 else ItemNode(n)" not in norm(lcs[0]):
        R.bad(pr, pr.node, "uncached precedents are not reported as object nodes", stmt="listcomp")
    for spec in ("ItemFactory.precedents", "ItemNode.precedents"):
        fi = ctx.func(spec)
        txt = " ".join(norm(r_.value) for r_ in q.returns(fi))
        R.inst("%s = preds + get_valuerefs() + get_attrpreds()" % spec)
        if not ("preds" in txt and "get_valuerefs()" in txt and "get_attrpreds(" in txt):
            R.bad(fi, fi.node, "precedents no longer include calls, value references and attribute references",
                  stmt="return")
    cs_ = ctx.func("CellsImpl.check_sanity")
    R.inst("check_sanity: set(data.keys()) == keys of graph nodes of the cells")
    a = [n for n in walk_local(cs_.node) if isinstance(n, ast.Assert)]
    if not a or "self.data.keys()" not in norm(a[0]) or "get_nodes_with" not in " ".join(
            norm(x) for x in walk_local(cs_.node) if isinstance(x, ast.Assign)):
        R.bad(cs_, cs_.node, "self-check no longer compares data keys with graph nodes", stmt="assert")


VALUE_READERS = {
    "NonThreadedExecutor.eval_node": "the hit path: the edge to the caller is recorded right after the read",
    "get_node_repr": "formats an error message",
}


@rule("C08.R6", "C08", "WMC", "a held value is read by key only on the executor's hit path", min_instances=2,
      also=("C02", "C06"))
def r6(ctx, R):
    """In modelx.core, `<cells>.data[<key>]` and `<cells>.data.get(<key>)` are read only in
    NonThreadedExecutor.eval_node (which records the dependency edge for the caller) and in
    get_node_repr.  Any other keyed read hands a held value to its caller without an edge:
    a formula that obtained the value that way is not invalidated when the value changes."""
    n = 0
    for f in ctx.repo.all_funcs(modules=["modelx.core"]):
        for x in walk_local(f.node):
            hit = None
            if isinstance(x, ast.Subscript) and isinstance(x.ctx, ast.Load):
                base = q.origin(f, x.value)
                if isinstance(base, ast.Attribute) and base.attr == "data" and not isinstance(x.slice, ast.Slice):
                    hit = x
            elif isinstance(x, ast.Call) and isinstance(x.func, ast.Attribute) and x.func.attr in ("get", "pop", "setdefault"):
                base = q.origin(f, x.func.value)
                if isinstance(base, ast.Attribute) and base.attr == "data":
                    hit = x
            if hit is None:
                continue
            # only cells value stores: the receiver is a cells implementation (self in CellsImpl, or node[OBJ]/cells/obj)
            owner = f.cls.name if f.cls is not None else None
            recv = norm(base.value)
            if owner is not None and recv == "self" and not any(c.name == "CellsImpl" for c in f.cls.mro):
                continue
            n += 1
            R.inst("keyed read of held values in %s: `%s`" % (f.short, norm(hit)[:50]))
            if f.short not in VALUE_READERS:
                R.bad(f, hit, "a held value is read by key outside the executor's hit path: the caller gets the value "
                              "without a dependency edge, so it is not invalidated when the value changes")
    R.need(n >= 2, "expected >=2 keyed reads of held values, found %d" % n)
    # the same for ItemSpaces: an instance is handed out by key only through eval_node (`<space>.data[key]`)
    m = 0
    for f in ctx.repo.all_funcs(modules=["modelx.core.space"]):
        for x in walk_local(f.node):
            hit = None
            if isinstance(x, ast.Subscript) and isinstance(x.ctx, ast.Load) and not isinstance(x.slice, ast.Slice):
                base = q.origin(f, x.value)
                if isinstance(base, ast.Attribute) and base.attr == "param_spaces":
                    hit = x
            elif isinstance(x, ast.Call) and isinstance(x.func, ast.Attribute) and x.func.attr in ("get", "pop", "setdefault"):
                base = q.origin(f, x.func.value)
                if isinstance(base, ast.Attribute) and base.attr == "param_spaces":
                    hit = x
            if hit is None:
                continue
            m += 1
            R.inst("keyed read of an ItemSpace in %s" % f.short)
            if f.short != "ItemSpaceParent._del_itemspace":
                R.bad(f, hit, "an existing ItemSpace is handed out by key outside the executor: the formula that obtained it "
                              "gets no dependency edge from the space element, and is not cleared when the ItemSpace is deleted")
    R.need(m >= 1, "expected >=1 keyed read of param_spaces, found %d" % m)
