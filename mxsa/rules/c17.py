"""C17 - the error traceback is exactly the chain that was executing."""
import ast

from ..framework import rule
from ..astutil import dotted, call_name, call_recv, norm, walk_local, unparse
from .. import q
from .common import assigned_value, enclosing_for

META = {
    "explanation": (
        "Decides the structural clauses behind C17: (R1) every per-execution accumulator that "
        "the top-level wrapper reads when it builds the error stack is re-initialised before "
        "the evaluation starts, and the nodes ErrorStack consumes are restricted to the "
        "exception being reported (nodes rolled back by errors a formula handled are tagged "
        "with a different exception); (R2) the frame-name literal ErrorStack matches equals "
        "the name of every method that invokes a formula, and the pairing loop advances the "
        "python traceback once per frame; (R3) get_error / get_traceback / trace_locals read "
        "only the executor's excinfo / errorstack of the last run."),
    "not_decided": [
        "line numbers and frame/node pairing for every shape of chain (lambdas, comprehensions, ItemSpaces)",
    ],
    "assumptions": ["formula code objects are compiled from '<string>' (never inside the modelx directory)"],
}


@rule("C17.R1", "C17", "DOM", "per-execution accumulators are reset; ErrorStack keeps only the reported error's nodes",
      min_instances=6)
def r1(ctx, R):
    """Fields written by callees during an evaluation and read by _start_exec afterwards
    (rolledback, excinfo, errorstack) are re-initialised before the evaluation in both
    executors; rollback() records the propagating exception with the node and ErrorStack
    filters by identity with the reported exception."""
    # which executor fields do callees write during an evaluation?
    accum = set()
    for spec in ("CallStack.rollback", "CallStack.pop", "CallStack.append"):
        fi = ctx.func(spec)
        for c in q.calls(fi, name=("append", "appendleft", "extend", "add")):
            r = call_recv(c) or ""
            if r.startswith("self.executor."):
                accum.add(r.split(".")[-1])
        for st, t in q.attr_writes(fi, recv="self.executor"):
            accum.add(t.attr)
    R.slot("accumulators_written_by_callees", sorted(accum))
    R.must("rolledback" in accum, "rollback() no longer records nodes in executor.rolledback")
    for spec, start in (("NonThreadedExecutor._start_exec", lambda f: q.calls(f, name="_eval_formula")),
                        ("ThreadedExecutor._start_exec", lambda f: q.calls(f, name="set", recv_endswith="signal_start"))):
        fi = ctx.func(spec)
        ev = start(fi)
        R.must(ev, "%s: evaluation start not found" % spec)
        reads = {n.attr for n in walk_local(fi.node) if isinstance(n, ast.Attribute) and isinstance(n.ctx, ast.Load)
                 and dotted(n.value) == "self"}
        for fld in sorted((accum | {"excinfo", "errorstack"}) & reads):
            R.inst("%s: self.%s re-initialised before the evaluation" % (spec, fld))
            resets = [st for st, t in q.attr_writes(fi, attr=fld, recv="self") if isinstance(st, ast.Assign)]
            resets += [c for c in q.calls(fi, name="clear", recv="self." + fld)]
            ok = any(q.dominated(fi, [r_], ev[0]) and not q.path_between(fi, ev[0], r_) for r_ in resets) \
                if resets else False
            if not ok:
                R.bad(fi, ev[0], "self.%s is read after the evaluation but not reset before it: entries of "
                                 "earlier failures reach the next traceback" % fld, stmt="reset " + fld)
    rb = ctx.func("CallStack.rollback")
    ap = q.calls(rb, name="append", recv_endswith="rolledback")
    R.inst("rollback(): the node is recorded together with the exception being propagated")
    ok = False
    if len(ap) == 1 and ap[0].args:
        a = ap[0].args[0]
        if isinstance(a, ast.Tuple) and len(a.elts) == 2 and norm(a.elts[0]) == "node" \
                and "exc_info()" in norm(a.elts[1]):
            ok = True
    if not ok:
        R.bad(rb, ap[0] if ap else rb.node, "rolled-back nodes are not tagged with their exception: nodes of errors "
                                            "that a formula handled itself cannot be told from the failing chain",
              stmt="rolledback.append")
    es = ctx.func("ErrorStack.__init__")
    R.inst("ErrorStack: only nodes whose exception is the reported one are paired")
    filt = [n for n in walk_local(es.node) if isinstance(n, (ast.GeneratorExp, ast.ListComp))
            and norm(n.generators[0].iter) == "rolledback"]
    okf = False
    for g in filt:
        ifs = g.generators[0].ifs
        if ifs and isinstance(ifs[0], ast.Compare) and isinstance(ifs[0].ops[0], ast.Is) \
                and norm(ifs[0].comparators[0]) == "execinfo[1]":
            okf = True
    pops = q.calls(es, name="pop")
    if not okf:
        R.bad(es, es.node, "ErrorStack consumes every rolled-back node, including those of handled errors",
              stmt="filter by exception identity")
    R.inst("ErrorStack: the executor's list is emptied by the consumer")
    if not q.calls(es, name="clear", recv="rolledback") and not okf:
        R.bad(es, es.node, "consumed list is not emptied", stmt="rolledback.clear()")


@rule("C17.R4", "C17", "DOM", "the traceback of a failed run is built whatever the error-reporting mode", min_instances=2)
def r4(ctx, R):
    """In both executors' _start_exec, `self.errorstack = ErrorStack(self.excinfo, self.rolledback)` is executed
    on every path on which `self.excinfo` is set - not only when a FormulaError is going to be raised
    (use_formula_error(False) re-raises the original exception; get_traceback() must still answer)."""
    for spec in ("NonThreadedExecutor._start_exec", "ThreadedExecutor._start_exec"):
        fi = ctx.func(spec)
        ws = [st for st, t in q.attr_writes(fi, attr="errorstack", recv="self")
              if isinstance(st.value, ast.Call) and call_name(st.value) == "ErrorStack"]
        R.inst("%s: ErrorStack(excinfo, rolledback) under `self.excinfo` only" % spec)
        if len(ws) != 1:
            R.bad(fi, fi.node, "the error stack is not built exactly once", stmt="errorstack = ErrorStack(")
            continue
        g = q.guards_of(fi, ws[0])
        if set(g) != {("self.excinfo", "T")}:
            R.bad(fi, ws[0], "the traceback is built only under %s: with use_formula_error(False) the original exception is "
                             "re-raised and get_traceback() returns []" % sorted(g))
        if [norm(a) for a in ws[0].value.args] != ["self.excinfo", "self.rolledback"]:
            R.bad(fi, ws[0], "the error stack is not built from the stored exception and the rolled-back nodes")


@rule("C17.R2", "C17", "TABLE", "frame-name literal equals the formula-invoking method; one traceback step per frame",
      min_instances=5)
def r2(ctx, R):
    """ErrorStack.__init__: `frame.name == <lit>` with <lit> = the name of every function that
    contains a formula call; the flag is set on such a frame inside the modelx directory and
    consumed by the next frame outside it, which pops exactly one node and records
    frame.lineno and the frame's locals; `tb = tb.tb_next` runs once per iteration."""
    es = ctx.func("ErrorStack.__init__")
    lits = []
    for n in walk_local(es.node):
        if isinstance(n, ast.Compare) and norm(n.left) == "frame.name" and isinstance(n.comparators[0], ast.Constant):
            lits.append(n.comparators[0].value)
    names = set()
    for f in ctx.repo.all_funcs(modules=["modelx.core"]):
        for c in q.calls(f, name="altfunc"):
            if (call_recv(c) or "").endswith("altfunc.fresh"):
                names.add(f.name)
    R.slot("frame_name_literals", lits)
    R.slot("formula_invoking_methods", sorted(names))
    R.must(names, "no formula-invoking method found")
    R.inst("frame.name literal == %s" % sorted(names))
    if len(lits) != 1 or {lits[0]} != names:
        R.bad(es, es.node, "ErrorStack matches frame name %s but formulas are invoked from %s: no node "
                           "is paired with its line" % (lits, sorted(names)), stmt="frame.name ==")
    loops = [n for n in walk_local(es.node) if isinstance(n, ast.For) and norm(n.iter) == "tbexc.stack"]
    R.must(len(loops) == 1, "loop over tbexc.stack not found")
    lp = loops[0]
    R.inst("pairing loop: traceback advances once per frame, unconditionally")
    adv = [st for st in lp.body if isinstance(st, ast.Assign) and norm(st) == "tb = tb.tb_next"]
    if len(adv) != 1:
        R.bad(es, lp, "`tb = tb.tb_next` is not a direct, unconditional statement of the loop body: "
                      "locals are paired with the wrong frame", stmt="tb = tb.tb_next")
    R.inst("pairing loop: flag set on a formula-invoking frame inside the modelx directory")
    sets = [st for st, t in q.attr_writes(es, attr="on_eval_flag", recv="self")
            if isinstance(st.value, ast.Constant) and st.value.value is True]
    g_ok = False
    for st in sets:
        g = q.guards_of(es, st)
        if ("mxdir in frame.filename", "T") in g and any(t.startswith("frame.name ==") and l == "T" for t, l in g):
            g_ok = True
    if not g_ok:
        R.bad(es, es.node, "flag is not set exactly on on_eval_formula frames of modelx", stmt="on_eval_flag = True")
    R.inst("pairing loop: next frame outside modelx pops one node and records lineno and locals")
    pops = [c for c in q.calls(es, name="pop") if any(a is lp for a in __import__("mxsa.astutil", fromlist=["ancestors"]).ancestors(es.pm, c))]
    apps = [c for c in q.calls(es, name="append", recv="self") if any(a is lp for a in __import__("mxsa.astutil", fromlist=["ancestors"]).ancestors(es.pm, c))]
    if len(pops) != 1 or len(apps) != 1:
        R.bad(es, lp, "pairing arm does not pop exactly one node and append exactly one entry", stmt="pairing arm")
    else:
        g = q.guards_of(es, pops[0])
        if ("self.on_eval_flag", "T") not in g or not any(t == "mxdir in frame.filename" and l == "F" for t, l in g):
            R.bad(es, pops[0], "node is popped for a frame that is not the formula's own frame")
        a = apps[0].args[0] if apps[0].args else None
        if not (isinstance(a, ast.Tuple) and len(a.elts) == 3 and norm(a.elts[0]) == "node"
                and norm(a.elts[1]) == "frame.lineno" and "tb.tb_frame.f_locals" in norm(a.elts[2])):
            R.bad(es, apps[0], "entry is not (node, frame.lineno, locals of that frame)")
        resets = [st for st, t in q.attr_writes(es, attr="on_eval_flag", recv="self")
                  if isinstance(st.value, ast.Constant) and st.value.value is False
                  and any(x is lp for x in __import__("mxsa.astutil", fromlist=["ancestors"]).ancestors(es.pm, st))]
        if not resets or not q.followed(es, pops[0], resets, exits=[es.cfg.exit] + q.nodes_for(es, lp)):
            R.bad(es, pops[0], "flag is not consumed: one formula frame yields several entries")
    gt = ctx.func("ErrorStack.get_traceback")
    R.inst("get_traceback: (ItemNode(node), line[, locals]) in stored order")
    for lc in [n for n in walk_local(gt.node) if isinstance(n, ast.ListComp)]:
        if norm(lc.generators[0].iter) != "self" or not norm(lc.elt).startswith("(ItemNode(frame[0]), frame[1]"):
            R.bad(gt, lc, "traceback entries are not (node, line) of the stored frames in order")


@rule("C17.R3", "C17", "WMC", "get_error / get_traceback / trace_locals read only the last run's fields",
      min_instances=3)
def r3(ctx, R):
    """api.get_error returns executor.excinfo[1]; get_traceback / trace_locals read
    executor.errorstack; excinfo / errorstack are written only by the executors."""
    api = ctx.repo.module("modelx.core.api")
    ge = api.funcs["get_error"]
    R.inst("get_error returns executor.excinfo[1]")
    rets = [q.anorm(ge, r_.value) if r_.value is not None else "None" for r_ in q.returns(ge)]
    if "_system.executor.excinfo[1]" not in rets or any(r_ not in ("_system.executor.excinfo[1]", "None") for r_ in rets):
        R.bad(ge, ge.node, "get_error does not return the original exception of the last run", stmt="return")
    for nm in ("get_traceback", "trace_locals"):
        f = api.funcs[nm]
        R.inst("%s reads executor.errorstack.get_traceback" % nm)
        cs = q.calls(f, name="get_traceback")
        if not cs or any(call_recv(c) != "_system.executor.errorstack" for c in cs):
            R.bad(f, f.node, "%s does not read the error stack of the last run" % nm, stmt="errorstack.get_traceback")
    for f in ctx.repo.all_funcs(modules=["modelx.core"]):
        for st, t in q.attr_writes(f, attr=("excinfo", "errorstack")):
            R.inst("write of %s in %s" % (t.attr, f.short))
            if f.short not in ("NonThreadedExecutor.__init__", "NonThreadedExecutor._start_exec",
                               "ThreadedExecutor._start_exec", "ThreadedExecutor.ExecThread.run"):
                R.bad(f, st, "%s written outside the executor" % t.attr)
    ne = ctx.func("NonThreadedExecutor._start_exec")
    R.inst("_start_exec: ErrorStack(self.excinfo, self.rolledback)")
    cs = q.calls(ne, name="ErrorStack")
    if not cs or [norm(a) for a in cs[0].args] != ["self.excinfo", "self.rolledback"]:
        R.bad(ne, ne.node, "error stack is not built from this run's excinfo and rolled-back nodes", stmt="ErrorStack(...)")
