"""C09 - the cached flag never changes any result."""
import ast

from ..framework import rule
from ..astutil import dotted, call_name, call_recv, norm, walk_local, unparse
from ..consteval import ceval, UNKNOWN
from .. import q
from .common import source_changed_guards, graph_ops, assigned_value, kw, arg, is_cached_test, enclosing_for
from . import c08  # C08.R4 is listed for C09 as well (also=)

META = {
    "explanation": (
        "Decides the structural clauses behind C09: (R1) values are stored only for cached "
        "cells - in on_eval_formula and at every user assignment spelling; (R2) every "
        "definition-change handler of a cells or of the space owning it invalidates at "
        "object level (TraceManager.clear_obj), which covers the (cells,) node of an "
        "uncached cells, not only the keys found in data; (R4) the property mask handed to "
        "set_cells_property folds to a non-zero union of PROP_* bits and on_set_property "
        "writes the requested flag; (R5) eval_node tests is_cached before hashing the key; "
        "(R6) the flag is copied, never defaulted, when cells are derived or instantiated; "
        "plus C08.R4 (raw (cells,key) nodes need a cached cells)."),
    "not_decided": ["value equality under all 2^n assignments of the flag (runtime values)"],
    "assumptions": ["PROP_* are the class-level integer constants of UserCellsImpl"],
}

# call sites of set_value that are not user assignment spellings; each with the reason the
# target is known to be cached (confirmed by reading the function)
SET_VALUE_EXEMPT = {
    "UserSpaceImpl.new_cells_from_excel": "cells created three lines above by new_cells(...) with the default is_cached=True",
    "EditableParentImpl.new_space_from_excel": "cells created in the same function by new_cells(...) with the default is_cached=True",
    "CellsInputDataMixin.set_values": "model reader restoring inputs that the writer took from input_keys (only cached cells have any)",
    "ModelReader._set_dynamic_inputs": "model reader restoring inputs that the writer took from input_keys",
    "new_cells_from_pandas": "io.pandas importer: cells created in the same call with the default flag",
    "new_space_from_pandas": "io.pandas importer: cells created in the same call with the default flag",
    "CellsImpl.set_value": "the implementation itself (callee side)",
}


@rule("C09.R1", "C09", "GUARD", "values are stored only for cached cells", min_instances=6)
def r1(ctx, R):
    """on_eval_formula stores under `is_cached` only; every user assignment spelling
    (__setitem__, .value =, space.<name> =) refuses an uncached cells, or the callee does."""
    oe = ctx.func("CellsImpl.on_eval_formula")
    st = q.calls(oe, name="_store_value")
    R.inst("on_eval_formula: store guarded by self.is_cached")
    for c in st:
        if ("self.is_cached", "T") not in q.guards_of(oe, c):
            R.bad(oe, c, "a computed value is stored although the cells is uncached")
    R.inst("on_eval_formula: uncached branch re-executes the formula and stores nothing")
    fcs = [c for c in q.calls(oe, name="altfunc")]
    # with is_cached false the formula runs, nothing is stored and the function returns
    r_unc = q.run_abstract(oe, lambda e: "F" if norm(e) == "self.is_cached" else None)
    unc = [c for c in fcs if any(i in r_unc for i in q.nodes_for(oe, c))]
    stored_unc = [c for c in st if any(i in r_unc for i in q.nodes_for(oe, c))]
    if not unc or stored_unc or oe.cfg.exit not in r_unc:
        R.bad(oe, oe.node, "no uncached execution branch", stmt="else: altfunc(*key)")
    R.inst("on_eval_formula: an uncached cells refuses a None result exactly like a cached one")
    nr_ = q.raises(oe, "NoneReturnedError")
    v_none = lambda e: {"self.is_cached": "F", "value is None": "T", "value is not None": "F",
                        "self.get_property('allow_none')": "F"}.get(norm(e))
    v_ok = lambda e: {"self.is_cached": "F", "value is None": "T", "value is not None": "F",
                      "self.get_property('allow_none')": "T"}.get(norm(e))
    if not nr_ or not any(q.reached_under(oe, r_, v_none) for r_ in nr_) or any(q.reached_under(oe, r_, v_ok) for r_ in nr_):
        R.bad(oe, oe.node, "a formula returning None raises for a cached cells but returns None for an uncached one: a dependent "
                           "gets a value or an error depending on the flag", stmt="uncached None refusal")
    # callee-side guard?
    sv = ctx.func("CellsImpl.set_value_from_key")
    callee_guard = False
    for c in q.calls(sv, name="_store_value"):
        pass
    top_store = [c for c in q.calls(sv, name="_store_value")
                 if ("self.system.callstack", "F") in q.guards_of(sv, c)]
    if top_store and all(any(t.endswith("is_cached") and l == "T" for t, l in q.guards_of(sv, c)) for c in top_store):
        callee_guard = True
    sv2 = ctx.func("CellsImpl.set_value")
    c2 = q.calls(sv2, name="set_value_from_key")
    if c2 and all(any(t.endswith("is_cached") and l == "T" for t, l in q.guards_of(sv2, c)) for c in c2):
        callee_guard = True
    # a raise for the uncached case that dominates the call also counts
    for f_ in (sv, sv2):
        for r_ in q.raises(f_):
            if any(t.endswith("is_cached") and l == "F" for t, l in q.guards_of(f_, r_)):
                callee_guard = True
    R.slot("callee_side_guard", callee_guard)
    n = 0
    for f in ctx.repo.all_funcs():
        if ".serialize.serializer_" in f.module.name and not f.module.name.endswith("serializer_6"):
            continue
        for c in q.calls(f, name="set_value"):
            r = call_recv(c) or ""
            if r.endswith("spec") or "io" in r.split(".")[-1:]:
                continue
            n += 1
            R.inst("set_value call in %s" % f.short)
            if f.short in SET_VALUE_EXEMPT or f.name in SET_VALUE_EXEMPT:
                continue
            # receiver freshly created in this function with the default (cached) flag
            rv = call_recv(c)
            fresh = [v for v in assigned_value(f, rv)] if rv and "." not in rv else []
            if fresh and all(isinstance(v, ast.Call) and call_name(v) == "new_cells" and kw(v, "is_cached") is None
                             for v in fresh):
                continue
            if callee_guard:
                continue
            g = q.guards_of(f, c)
            if any(t.endswith("is_cached") and l == "T" for t, l in g):
                continue
            # or a raise on the uncached side that precedes the call
            ok = False
            for r_ in q.raises(f):
                if any(t.endswith("is_cached") and l == "F" for t, l in q.guards_of(f, r_)) and \
                        not q.path_between(f, r_, c):
                    # raise is on the other branch of a test that the call also depends on?
                    pass
            # pattern: `if not X.is_cached: raise` before the call
            for t_id in [nd.id for nd in f.cfg.nodes if nd.kind == "test" and is_cached_test(nd.ast)]:
                for cid in q.nodes_for(f, c):
                    if f.cfg.depends_on(cid, t_id, "T"):
                        ok = True
            if not ok:
                R.bad(f, c, "a user assignment reaches set_value without testing is_cached: "
                            "an uncached cells acquires a held value")
    R.need(n >= 5, "expected >=5 set_value call sites, found %d" % n)


def _clears_obj(ctx, fi, subject, depth=0, seen=None):
    """May-analysis: does `fi` invalidate `subject` (a dotted text: 'self', 'cells', ...) at
    object level, i.e. reach `<x>.clear_obj(subject)` possibly through helper methods called
    on the subject (followed through self-calls, <= 3 levels)?  -> path (list of str) or None"""
    seen = seen or set()
    key = (fi.qual, subject)
    if key in seen or depth > 3:
        return None
    seen.add(key)
    for c in q.calls(fi, name="clear_obj"):
        if c.args and norm(c.args[0]) == subject:
            # the only condition it may sit under is "the cells is uncached"
            g = {(t, l) for t, l in q.guards_of(fi, c)}
            chg = source_changed_guards(fi)
            if all((t.endswith("is_cached") and l == "F") or (l == "T" and t in chg)
                   for t, l in g):     # reload(): unchanged source needs no invalidation
                return ["%s: %s" % (fi.short, norm(c))]
    # helper methods on the subject
    for c in q.calls(fi):
        r = call_recv(c)
        if r != subject:
            continue
        # the helper must be able to run for an *uncached* subject
        if any(t.endswith("is_cached") and l == "T" for t, l in q.guards_of(fi, c)):
            continue
        if any(isinstance(a, (ast.IfExp, ast.BoolOp)) and "is_cached" in norm(a)
               for a in __import__("mxsa.astutil", fromlist=["ancestors"]).ancestors(fi.pm, c)):
            continue
        site = ctx.cg.site_of(c)
        if site is None:
            continue
        for t, p in site.targets:
            if t.cls is None or not (t.cls.name.endswith("CellsImpl") or t.cls.name in (
                    "ItemFactoryImpl", "Impl", "Derivable", "BaseNamespaceReferrer", "HasFormula")):
                if subject != "self":
                    # receiver is a variable: accept name-resolved targets on cells classes only
                    continue
            sub = _clears_obj(ctx, t, "self", depth + 1, seen)
            if sub:
                return ["%s: %s" % (fi.short, norm(c))] + sub
    return None


def _space_clears_cells(ctx, fi, depth=0, seen=None):
    """Does the space-level function `fi` reach an object-level invalidation of every cells
    of the space (a loop over self.cells.values() whose body invalidates the loop variable,
    or a helper on self that does)?"""
    seen = seen or set()
    if fi.qual in seen or depth > 3:
        return None
    seen.add(fi.qual)
    for lp in [n for n in walk_local(fi.node) if isinstance(n, ast.For)]:
        if norm(lp.iter) in ("self.cells.values()", "self._cells.values()") and isinstance(lp.target, ast.Name):
            v = lp.target.id
            for b in lp.body:
                for c in ast.walk(b):
                    if isinstance(c, ast.Call):
                        if call_name(c) == "clear_obj" and c.args and norm(c.args[0]) == v:
                            return ["%s: %s" % (fi.short, norm(c))]
                        if call_recv(c) == v:
                            site = ctx.cg.site_of(c)
                            for t, p in (site.targets if site else []):
                                if t.cls is not None and t.cls.name.endswith("CellsImpl"):
                                    sub = _clears_obj(ctx, t, "self", 1, set())
                                    if sub:
                                        return ["%s: %s" % (fi.short, norm(c))] + sub
    for c in q.calls(fi):
        if call_recv(c) == "self":
            site = ctx.cg.site_of(c)
            for t, p in (site.targets if site else []):
                if p == "exact":
                    sub = _space_clears_cells(ctx, t, depth + 1, seen)
                    if sub:
                        return ["%s: %s" % (fi.short, norm(c))] + sub
    return None


@rule("C09.R2", "C09", "REACH", "definition-change handlers invalidate at object level (covers (cells,) nodes)",
      min_instances=8, also=("C02",))
def r2(ctx, R):
    """CellsImpl.on_namespace_change / on_inherit, UserCellsImpl.on_rename / on_set_property /
    reload, UserSpaceImpl.on_del_cells reach TraceManager.clear_obj(<that cells>);
    BaseSpaceImpl.on_delete and UserSpaceImpl.on_rename reach it for every cells of the space.
    Reaching only the per-key clearing driven by `data` (empty for uncached cells) is a violation."""
    cell_handlers = ["CellsImpl.on_namespace_change", "CellsImpl.on_inherit", "UserCellsImpl.on_rename",
                     "UserCellsImpl.on_set_property", "UserCellsImpl.reload"]
    for spec in cell_handlers:
        fi = ctx.func(spec)
        R.inst("%s reaches clear_obj(self)" % spec)
        p = _clears_obj(ctx, fi, "self")
        if not p:
            R.bad(fi, fi.node, "handler clears only the keys held in `data`: an uncached cells holds none, so cached "
                               "callers that computed through it keep stale values", stmt="object-level invalidation")
        else:
            R.note("%s: %s" % (spec, " -> ".join(p)))
    fi = ctx.func("UserSpaceImpl.on_del_cells")
    R.inst("UserSpaceImpl.on_del_cells reaches clear_obj(cells)")
    if not _clears_obj(ctx, fi, "cells"):
        R.bad(fi, fi.node, "deleting a cells does not invalidate its object node", stmt="object-level invalidation")
    for spec in ("BaseSpaceImpl.on_delete", "UserSpaceImpl.on_rename"):
        fi = ctx.func(spec)
        R.inst("%s reaches object-level invalidation of every cells of the space" % spec)
        p = _space_clears_cells(ctx, fi)
        if not p:
            R.bad(fi, fi.node, "the space's uncached cells keep their (cells,) nodes and their cached callers keep "
                               "values computed from a deleted/renamed space", stmt="object-level invalidation of cells")
        else:
            R.note("%s: %s" % (spec, " -> ".join(p)))
    # TraceManager.clear_obj itself
    tm = ctx.func("TraceManager.clear_obj")
    R.inst("TraceManager.clear_obj removes every node of the object through TraceGraph.clear_obj(obj)")
    cs = [c for c in q.calls(tm, name="clear_obj") if (call_recv(c) or "").endswith("tracegraph")]
    if len(cs) != 1 or [norm(a) for a in cs[0].args] != ["obj"]:
        R.bad(tm, tm.node, "clear_obj does not clear the object's nodes in the trace graph", stmt="tracegraph.clear_obj(obj)")


@rule("C09.R4", "C09", "CONST", "property mask is a non-zero union of PROP_* bits; requested flag is written",
      min_instances=5)
def r4(ctx, R):
    """Every `flags` argument of set_cells_property / on_set_property folds (E5) to a non-zero
    value; set_cache passes PROP_CACHE and the user's value; on_set_property writes
    `is_cached = enable_cache` under `flags & PROP_CACHE`."""
    n = 0
    for f in ctx.repo.all_funcs(modules=["modelx.core"]):
        for c in q.calls(f, name=("set_cells_property", "on_set_property")):
            a = arg(c, 1 if call_name(c) == "set_cells_property" else 0, "flags")
            if a is None:
                continue
            n += 1
            R.inst("%s: flags = %s" % (f.short, norm(a)))
            if isinstance(a, ast.Name) and a.id == "flags" and "flags" in f.params:
                continue    # forwarded parameter
            v = ceval(a, ctx.repo, f)
            if v is UNKNOWN:
                R.bad(f, c, "property mask `%s` is not a constant union of PROP_* bits" % norm(a))
            elif v == 0:
                R.bad(f, c, "property mask `%s` folds to 0: neither the formula nor the cached flag is changed" % norm(a))
    R.need(n >= 2, "expected >=2 property-mask sites, found %d" % n)
    sc = ctx.func("SpaceManager.set_cache")
    c = q.calls(sc, name="set_cells_property")
    R.inst("set_cache passes PROP_CACHE and enable_cache")
    if not c or ceval(c[0].args[1], ctx.repo, sc) != ceval(ast.parse("UserCellsImpl.PROP_CACHE", mode="eval").body, ctx.repo, sc) \
            or norm(c[0].args[3]) != "enable_cache":
        R.bad(sc, sc.node, "set_cache does not request PROP_CACHE with the caller's value", stmt="set_cells_property")
    sf = ctx.func("SpaceManager.set_cells_formula")
    c = q.calls(sf, name="set_cells_property")
    R.inst("set_cells_formula passes PROP_FORMULA only")
    if not c or ceval(c[0].args[1], ctx.repo, sf) != 1:
        R.bad(sf, sf.node, "set_cells_formula mask is not PROP_FORMULA", stmt="set_cells_property")
    op = ctx.func("UserCellsImpl.on_set_property")
    ws = [st for st, t in q.attr_writes(op, attr="is_cached", recv="self")]
    R.inst("on_set_property: is_cached = enable_cache under flags & PROP_CACHE")
    if len(ws) != 1 or norm(ws[0].value) != "enable_cache" or \
            ("flags & self.PROP_CACHE", "T") not in q.guards_of(op, ws[0]):
        R.bad(op, ws[0] if ws else op.node, "the cached flag is not set to the requested value under PROP_CACHE", stmt="is_cached =")
    fw = [st for st, t in q.attr_writes(op, attr="formula", recv="self")]
    R.inst("on_set_property: formula written only under flags & PROP_FORMULA")
    for st in fw:
        if ("flags & self.PROP_FORMULA", "T") not in q.guards_of(op, st):
            R.bad(op, st, "formula is replaced although PROP_FORMULA was not requested")
    if ws and not q.dominated(op, q.calls(op, name="clear_obj"), ws[0]):
        R.bad(op, ws[0], "switching the cached flag is not preceded by clear_obj(self)")
    pc = ctx.cls("UserCellsImpl")
    R.inst("PROP_FORMULA and PROP_CACHE are distinct non-zero bits")
    a, b = ceval(pc.consts.get("PROP_FORMULA"), ctx.repo), ceval(pc.consts.get("PROP_CACHE"), ctx.repo)
    if not (isinstance(a, int) and isinstance(b, int) and a and b and not (a & b)):
        R.bad("modelx/core/cells.py", pc.node, "PROP_* bits overlap or are zero (%s, %s)" % (a, b), stmt="PROP_*")
    setter = ctx.func("Cells.is_cached.setter")
    R.inst("Cells.is_cached setter -> spmgr.set_cache(self._impl, enable_cache)")
    c = q.calls(setter, name="set_cache")
    if not c or [norm(x) for x in c[0].args] != ["self._impl", "enable_cache"]:
        R.bad(setter, setter.node, "is_cached setter does not go through set_cache", stmt="set_cache")


@rule("C09.R5", "C09", "GUARD", "is_cached is tested before the key is hashed", min_instances=1)
def r5(ctx, R):
    """In eval_node the has_node(key) operand is control-dependent on is_cached being true."""
    en = ctx.func("NonThreadedExecutor.eval_node")
    cfg = en.cfg
    th = [n for n in cfg.nodes if n.kind == "test" and q.mentions_call(n.ast, "has_node")]
    if not th:
        R.inst("eval_node: membership test present")
        R.bad(en, en.node, "eval_node has no has_node(key) membership test", stmt="has_node")
        return
    for t in th:
        R.inst("eval_node: `%s` only after is_cached" % norm(t.ast))
        if not any(tt.endswith(".is_cached") and l == "T" for tt, l in q.guards_of(en, t.ast)):
            R.bad(en, t.ast, "an uncached call hashes its key (unhashable arguments fail)")
    for st in [n for n in walk_local(en.node) if isinstance(n, ast.Subscript) and norm(n.value).endswith(".data")]:
        R.inst("eval_node: `%s` only after is_cached" % norm(st))
        if not any(tt.endswith(".is_cached") and l == "T" for tt, l in q.guards_of(en, st)):
            R.bad(en, st, "data is indexed for a possibly uncached cells")


@rule("C09.R6", "C09", "FLOW", "the cached flag is copied when cells are derived or instantiated; a copy carries inputs only",
      min_instances=4, also=("C01", "C06"))
def r6(ctx, R):
    """CellsImpl.__init__ with a base copies base.is_cached; on_inherit copies bases[0].is_cached;
    the writer emits `_is_cached = False` and both cell parsers read it back (see C04.R3)."""
    ci = ctx.func("CellsImpl.__init__")
    ws = [st for st, t in q.attr_writes(ci, attr="is_cached", recv="self")]
    R.inst("CellsImpl.__init__: is_cached = base.is_cached if base else is_cached")
    vals = {norm(st.value): q.guards_of(ci, st) for st in ws}
    if not (("base", "T") in vals.get("base.is_cached", set()) and ("base", "F") in vals.get("is_cached", set())):
        R.bad(ci, ci.node, "a derived/dynamic cells does not take the cached flag of its base", stmt="is_cached =")
    oi = ctx.func("CellsImpl.on_inherit")
    ws = [st for st, t in q.attr_writes(oi, attr="is_cached", recv="self")]
    R.inst("CellsImpl.on_inherit: is_cached = bases[0].is_cached")
    if len(ws) != 1 or norm(ws[0].value) != "bases[0].is_cached":
        R.bad(oi, oi.node, "re-derivation does not copy the cached flag of the first base", stmt="is_cached =")
    nc = ctx.func("SpaceManager.new_cells")
    R.inst("new_cells forwards is_cached to the new cells")
    for c in q.calls(nc, name="UserCellsImpl"):
        a = kw(c, "is_cached")
        if a is None or norm(a) != "is_cached":
            R.bad(nc, c, "is_cached is not forwarded to the constructor")
    cc = ctx.func("SpaceManager.copy_cells")
    R.inst("copy_cells: only assigned values travel with the copy (computed ones are recomputed in the new space)")
    cnew = [x for x in q.calls(cc, name="new_cells") if (call_recv(x) or "") == "self"]
    dsrc = q.origin(cc, kw(cnew[0], "data")) if cnew and kw(cnew[0], "data") is not None else None
    okd = False
    if isinstance(dsrc, ast.DictComp) and len(dsrc.generators) == 1:
        g_ = dsrc.generators[0]
        tg = [norm(e) for e in g_.target.elts] if isinstance(g_.target, ast.Tuple) else []
        if norm(g_.iter) == "source.data.items()" and len(tg) == 2 and [norm(dsrc.key), norm(dsrc.value)] == tg \
                and [norm(i) for i in g_.ifs] == ["%s in source.input_keys" % tg[0]]:
            okd = True
        if norm(g_.iter) == "source.input_keys" and norm(dsrc.value) == "source.data[%s]" % norm(g_.target) and not g_.ifs:
            okd = True
    if not okd:
        R.bad(cc, cnew[0] if cnew else cc.node, "computed values of the source travel into the copy as inputs: the copy serves "
              "values obtained with the source space's names and never runs its formula for them", stmt="data = inputs only")
    R.inst("copy_cells: the copy takes the cached flag of its source")
    c = [x for x in q.calls(cc, name="new_cells") if (call_recv(x) or "") == "self"]
    if not c or norm(kw(c[0], "is_cached") or ast.Constant(None)) != "source.is_cached":
        R.bad(cc, cc.node, "a copied cells is always cached: a copy of an uncached cells hashes its arguments "
                           "(TypeError for unhashable ones) and holds values", stmt="is_cached=source.is_cached")
    us = ctx.func("UserSpace.new_cells")
    R.inst("UserSpace.new_cells forwards is_cached")
    c = q.calls(us, name="new_cells")
    if not c or norm(kw(c[0], "is_cached") or ast.Constant(None)) != "is_cached":
        R.bad(us, us.node, "is_cached is not forwarded", stmt="new_cells")
