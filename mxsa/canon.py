"""Canonical form of a function body: pure alias locals are inlined (copy propagation).

Rules match text.  `graph = cells.model.tracegraph; graph.add_edge(...)` and
`cells.model.tracegraph.add_edge(...)` are the same program to every property; so are
`mgr = self.refmgr; mgr.del_ref(...)` and `self.refmgr.del_ref(...)`.  To make the rules
independent of which of the two spellings a maintainer prefers, every function is brought
into one canonical spelling before any rule looks at it: a local that is assigned exactly
once, from a *pure accessor expression* (names, attribute chains, projections `x[CONST]` of
a node tuple, `id()` of those), whose source is not written in the same function,
is replaced by its definition at every use in the function's own scope.  The assignment
statement itself stays (it is dead code in the canonical form).  Calls are never inlined:
their position in the control flow is what several rules decide.
"""
import ast
import copy

from .astutil import FUNC_TYPES

_PURE_CALLS = ("id",)
_MUTATORS = {"pop", "append", "appendleft", "popleft", "remove", "clear", "update", "add", "discard", "insert",
             "extend", "popitem", "setdefault", "__setitem__", "__delitem__", "sort", "reverse"}


def _pure(e):
    if isinstance(e, (ast.Name, ast.Constant)):
        return True
    if isinstance(e, ast.Attribute):
        return _pure(e.value)
    if isinstance(e, ast.Subscript):
        # only projections of a node tuple by a module constant (node[OBJ], node[KEY]): reads of
        # mutable containers (self.cells[name], self.idxstack[-1]) depend on *when* they happen
        s = e.slice
        if isinstance(s, ast.Name) and s.id.isupper() and _pure(e.value):
            return True
        # element of a sequence held in a plain local / parameter (bases[0]); the mutation guards apply
        return isinstance(s, ast.Constant) and isinstance(s.value, int) and isinstance(e.value, ast.Name)
    if isinstance(e, ast.Call):
        return isinstance(e.func, ast.Name) and e.func.id in _PURE_CALLS and len(e.args) == 1 \
            and not e.keywords and _pure(e.args[0])
    if isinstance(e, ast.Compare):
        return _pure(e.left) and all(_pure(c) for c in e.comparators)
    if isinstance(e, ast.UnaryOp) and isinstance(e.op, ast.Not):
        return _pure(e.operand)
    if isinstance(e, ast.BoolOp):
        return all(_pure(v) for v in e.values)
    return False


def _local_nodes(fn):
    """Nodes of fn's own scope (not inside nested def/lambda/class/comprehension)."""
    stack = list(fn.body)
    while stack:
        n = stack.pop()
        yield n
        if isinstance(n, FUNC_TYPES + (ast.Lambda, ast.ClassDef, ast.ListComp, ast.SetComp, ast.DictComp,
                                       ast.GeneratorExp)):
            continue
        stack.extend(ast.iter_child_nodes(n))


def _loop_local(fn, name, roots):
    """`name` is defined inside the body of a for loop whose target binds every multi-bound root it reads,
    those roots are bound nowhere else, and every use of `name` is inside that loop body, after the definition."""
    def targets(t):
        return {a.id for a in ast.walk(t) if isinstance(a, ast.Name)}
    loops = [n for n in _local_nodes(fn) if isinstance(n, ast.For) and roots <= targets(n.target)]
    if len(loops) != 1:
        return False
    lp = loops[0]
    # roots bound only by this loop
    for n in ast.walk(fn):
        if n is lp:
            continue
        if isinstance(n, (ast.For, ast.comprehension)) and targets(n.target) & roots:
            return False
        if isinstance(n, ast.Name) and isinstance(n.ctx, ast.Store) and n.id in roots and not any(
                n is x for x in ast.walk(lp.target)):
            return False
    body_nodes = [x for b in lp.body for x in ast.walk(b)]
    ids = {id(x) for x in body_nodes}
    dpos = None
    for x in body_nodes:
        if isinstance(x, ast.Name) and x.id == name and isinstance(x.ctx, ast.Store):
            dpos = (x.lineno, x.col_offset)
    if dpos is None:
        return False
    # the definition must be a direct statement of the loop body (executed in every iteration before the uses)
    if not any(isinstance(b, ast.Assign) and any(isinstance(t, ast.Name) and t.id == name for t in b.targets) for b in lp.body):
        return False
    for x in ast.walk(fn):
        if isinstance(x, ast.Name) and x.id == name and isinstance(x.ctx, ast.Load):
            if id(x) not in ids or (x.lineno, x.col_offset) < dpos:
                return False
    return True


# properties that always answer with the same object for the life of their owner (read and confirmed):
STABLE_PROPS = frozenset("""model system spmgr refmgr updater manager tracegraph refgraph executor callstack
iomanager interface_cls""".split())


def unstable_attrs(trees):
    """Attribute names whose value may differ between two reads in one function: assigned somewhere in the
    package outside __init__ / __new__ / __setstate__, or computed by a property that is not in STABLE_PROPS.
    An alias of a chain through such an attribute is a *snapshot* (old_name = cells.name; val = ref.interface;
    node = space.idstr): it is never inlined."""
    out = set()
    for tree in trees:
        for fn in ast.walk(tree):
            if not isinstance(fn, FUNC_TYPES):
                continue
            is_prop = any((isinstance(d, ast.Name) and d.id in ("property", "cached_property"))
                          or (isinstance(d, ast.Attribute) and d.attr in ("setter", "getter", "deleter"))
                          for d in fn.decorator_list)
            if is_prop and fn.name not in STABLE_PROPS:
                out.add(fn.name)
            ctor = fn.name in ("__init__", "__new__", "__setstate__")
            for n in ast.walk(fn):
                tg = []
                if isinstance(n, ast.Assign):
                    tg = n.targets
                elif isinstance(n, (ast.AugAssign, ast.AnnAssign)):
                    tg = [n.target]
                elif isinstance(n, ast.Delete):
                    tg = n.targets
                for t in tg:
                    for a in ast.walk(t):
                        if isinstance(a, ast.Attribute) and isinstance(a.ctx, (ast.Store, ast.Del)):
                            if not (ctor and isinstance(a.value, ast.Name) and a.value.id == "self"):
                                out.add(a.attr)
                if isinstance(n, ast.Call) and isinstance(n.func, ast.Name) and n.func.id in ("setattr", "delattr") \
                        and len(n.args) >= 2 and isinstance(n.args[1], ast.Constant):
                    out.add(n.args[1].value)
    return frozenset(out) - STABLE_PROPS


def alias_defs(fn, unstable=frozenset()):
    counts, defs = {}, {}
    params = {a.arg for a in fn.args.posonlyargs + fn.args.args + fn.args.kwonlyargs}
    if fn.args.vararg:
        params.add(fn.args.vararg.arg)
    if fn.args.kwarg:
        params.add(fn.args.kwarg.arg)
    written_attrs, written_names = set(), set()
    mutated = set()      # receivers of mutating method calls
    called_on = set()    # attribute-chain receivers of any method call

    def bump(t, k):
        for a in ast.walk(t):
            if isinstance(a, ast.Name):
                counts[a.id] = counts.get(a.id, 0) + k

    for n in ast.walk(fn):           # bindings anywhere (nested scopes too) disqualify a name
        if isinstance(n, ast.Assign):
            for t in n.targets:
                if isinstance(t, ast.Name):
                    counts[t.id] = counts.get(t.id, 0) + 1
                    defs[t.id] = n.value
                elif isinstance(t, (ast.Tuple, ast.List)) and isinstance(n.value, (ast.Tuple, ast.List)) \
                        and len(t.elts) == len(n.value.elts) and all(isinstance(a, ast.Name) for a in t.elts):
                    for a, b in zip(t.elts, n.value.elts):
                        counts[a.id] = counts.get(a.id, 0) + 1
                        defs[a.id] = b
                elif isinstance(t, ast.Attribute):
                    written_attrs.add(t.attr)
                elif isinstance(t, ast.Subscript):
                    v = t.value
                    if isinstance(v, ast.Attribute):
                        written_attrs.add(v.attr)
                    elif isinstance(v, ast.Name):
                        written_names.add(v.id)
                else:
                    bump(t, 2)
        elif isinstance(n, ast.Call) and isinstance(n.func, ast.Attribute) and n.func.attr not in _MUTATORS:
            if isinstance(n.func.value, ast.Attribute):
                called_on.add(ast.dump(n.func.value))
        elif isinstance(n, ast.Call) and isinstance(n.func, ast.Attribute):
            mutated.add(ast.dump(n.func.value))
            if isinstance(n.func.value, ast.Attribute):
                called_on.add(ast.dump(n.func.value))
            if isinstance(n.func.value, ast.Name) and n.args:      # deque.append(self, item)
                mutated.add(ast.dump(n.args[0]))
        elif isinstance(n, (ast.AugAssign, ast.AnnAssign)):
            t = n.target
            if isinstance(t, ast.Name):
                counts[t.id] = counts.get(t.id, 0) + 2
            elif isinstance(t, ast.Attribute):
                written_attrs.add(t.attr)
        elif isinstance(n, ast.Delete):
            for t in n.targets:
                if isinstance(t, ast.Attribute):
                    written_attrs.add(t.attr)
                elif isinstance(t, ast.Subscript) and isinstance(t.value, ast.Attribute):
                    written_attrs.add(t.value.attr)
        elif isinstance(n, (ast.For, ast.AsyncFor)):
            bump(n.target, 2)
        elif isinstance(n, ast.comprehension):
            bump(n.target, 2)
        elif isinstance(n, (ast.With, ast.AsyncWith)):
            for it in n.items:
                if it.optional_vars is not None:
                    bump(it.optional_vars, 2)
        elif isinstance(n, ast.ExceptHandler) and n.name:
            counts[n.name] = counts.get(n.name, 0) + 2
        elif isinstance(n, (ast.Global, ast.Nonlocal)):
            for nm in n.names:
                counts[nm] = counts.get(nm, 0) + 2
        elif isinstance(n, ast.NamedExpr):
            bump(n.target, 2)
        elif isinstance(n, FUNC_TYPES) and n is not fn:
            counts[n.name] = counts.get(n.name, 0) + 2
    out = {}
    for k, v in defs.items():
        if counts.get(k) != 1 or k in params or not _pure(v) or isinstance(v, ast.Constant):
            continue
        # the source must not be re-bound in this function (old_name = self.name; self.name = ...)
        attrs = {a.attr for a in ast.walk(v) if isinstance(a, ast.Attribute)}
        if attrs & unstable:
            continue
        roots = {a.id for a in ast.walk(v) if isinstance(a, ast.Name)}
        if attrs & written_attrs:
            continue
        multi = {r for r in roots if counts.get(r, 0) > 1}
        if roots & written_names:
            continue
        if multi and not _loop_local(fn, k, multi):
            continue
        if isinstance(v, ast.Name) and v.id == k:
            continue
        # a method called on a proper prefix of the chain may re-bind what the alias read
        # (oldsrc = self.formula.source; self.formula._reload())
        pre, hit = getattr(v, "value", None), False
        while isinstance(pre, (ast.Attribute, ast.Subscript)):
            if isinstance(pre, ast.Attribute) and ast.dump(pre) in called_on:
                hit = True
            pre = pre.value
        if hit:
            continue
        # a container that is mutated in place in this function may differ between def and use
        if not isinstance(v, (ast.Name, ast.Attribute)) and any(ast.dump(a) in mutated for a in ast.walk(v)):
            continue
        out[k] = v
    return out


class _Inline(ast.NodeTransformer):
    def __init__(self, defs):
        self.defs = defs

    def _skip(self, node):
        return node

    visit_FunctionDef = visit_AsyncFunctionDef = visit_Lambda = visit_ClassDef = _skip
    visit_ListComp = visit_SetComp = visit_DictComp = visit_GeneratorExp = _skip

    def visit_Name(self, node):
        if isinstance(node.ctx, ast.Load) and node.id in self.defs:
            v = self.defs[node.id]
            for _ in range(4):     # chase chains of aliases
                changed = False
                v = copy.deepcopy(v)
                for sub in ast.walk(v):
                    pass
                v2 = _Chase(self.defs, node.id).visit(v)
                if ast.dump(v2) == ast.dump(v):
                    break
                v = v2
            new = copy.deepcopy(v)
            for sub in ast.walk(new):
                ast.copy_location(sub, node)
            return new
        return node


class _Chase(ast.NodeTransformer):
    def __init__(self, defs, avoid):
        self.defs, self.avoid = defs, avoid

    def visit_Name(self, node):
        if isinstance(node.ctx, ast.Load) and node.id in self.defs and node.id != self.avoid:
            return copy.deepcopy(self.defs[node.id])
        return node


class _Drop(ast.NodeTransformer):
    """The defining statement of an inlined alias is dead in the canonical form: `x = <pure>` -> pass."""

    def __init__(self, defs):
        self.defs = defs
        self.top = True

    def _nested(self, node):
        if self.top:
            self.top = False
            return self.generic_visit(node)
        return node

    visit_FunctionDef = visit_AsyncFunctionDef = _nested

    def visit_Lambda(self, node):
        return node

    visit_ClassDef = visit_Lambda

    def visit_Assign(self, node):
        if len(node.targets) == 1:
            t = node.targets[0]
            if isinstance(t, ast.Name) and t.id in self.defs:
                return ast.copy_location(ast.Pass(), node)
            if isinstance(t, (ast.Tuple, ast.List)) and isinstance(node.value, (ast.Tuple, ast.List)) \
                    and len(t.elts) == len(node.value.elts) and all(isinstance(a, ast.Name) for a in t.elts):
                keep = [(a, b) for a, b in zip(t.elts, node.value.elts) if a.id not in self.defs]
                if not keep:
                    return ast.copy_location(ast.Pass(), node)
                if len(keep) < len(t.elts):
                    node.targets = [ast.Tuple(elts=[a for a, _ in keep], ctx=ast.Store())]
                    node.value = ast.Tuple(elts=[b for _, b in keep], ctx=ast.Load())
        return node


class _IfAssign(ast.NodeTransformer):
    """if c: v = A  elif d: v = B  else: v = C   ->   v = A if c else (B if d else C)
    (every branch is exactly one plain assignment to the same name; a final else is required)."""

    def __init__(self):
        self.top = True

    def _fn(self, node):
        if self.top:
            self.top = False
            return self.generic_visit(node)
        return node

    visit_FunctionDef = visit_AsyncFunctionDef = _fn

    def visit_If(self, node):
        self.generic_visit(node)
        r = self._as_ifexp(node)
        if r is None:
            return node
        name, value = r
        new = ast.Assign(targets=[ast.Name(id=name, ctx=ast.Store())], value=value)
        ast.copy_location(new, node)
        ast.copy_location(new.targets[0], node)
        return new

    def _as_ifexp(self, node):
        def single(body):
            if len(body) == 1 and isinstance(body[0], ast.Assign) and len(body[0].targets) == 1 \
                    and isinstance(body[0].targets[0], ast.Name):
                return body[0].targets[0].id, body[0].value
            return None
        a = single(node.body)
        if a is None or not node.orelse:
            return None
        b = single(node.orelse)
        if b is None or b[0] != a[0]:
            return None
        v = ast.IfExp(test=node.test, body=a[1], orelse=b[1])
        ast.copy_location(v, node)
        return a[0], v


def _bool_const(st, value):
    return isinstance(st, ast.Return) and isinstance(st.value, ast.Constant) and st.value.value is value


def _fold_quantifier_loops(body):
    """for x in IT: if not C: return False   (then) return True    ->  return all(C for x in IT)
       for x in IT: if C: return True        (then) return False   ->  return any(C for x in IT)"""
    out, i = [], 0
    while i < len(body):
        st = body[i]
        nxt = body[i + 1] if i + 1 < len(body) else None
        done = False
        if isinstance(st, ast.For) and not st.orelse and len(st.body) == 1 and isinstance(st.body[0], ast.If) \
                and not st.body[0].orelse and len(st.body[0].body) == 1 and nxt is not None:
            cond, inner = st.body[0].test, st.body[0].body[0]
            for early, after, fn_, negate in ((False, True, "all", True), (True, False, "any", False)):
                if _bool_const(inner, early) and _bool_const(nxt, after):
                    c = cond
                    if negate:
                        c = c.operand if isinstance(c, ast.UnaryOp) and isinstance(c.op, ast.Not) else ast.UnaryOp(op=ast.Not(), operand=c)
                    gen = ast.GeneratorExp(elt=c, generators=[ast.comprehension(target=st.target, iter=st.iter, ifs=[], is_async=0)])
                    new = ast.Return(value=ast.Call(func=ast.Name(id=fn_, ctx=ast.Load()), args=[gen], keywords=[]))
                    for x in ast.walk(new):
                        ast.copy_location(x, st)
                    out.append(new)
                    i += 2
                    done = True
                    break
        if not done:
            for field in ("body", "orelse", "finalbody"):
                sub = getattr(st, field, None)
                if isinstance(sub, list) and sub and isinstance(sub[0], ast.stmt) and not isinstance(st, FUNC_TYPES + (ast.ClassDef,)):
                    setattr(st, field, _fold_quantifier_loops(sub))
            if isinstance(st, ast.Try):
                for h in st.handlers:
                    h.body = _fold_quantifier_loops(h.body)
            out.append(st)
            i += 1
    return out


def canonicalize(fn, unstable=frozenset()):
    """Inline pure alias locals in place (fn is a FunctionDef).  Returns the alias map used."""
    fn.body = _fold_quantifier_loops(fn.body)
    _IfAssign().visit(fn)
    ast.fix_missing_locations(fn)
    defs = alias_defs(fn, unstable)
    if not defs:
        return {}
    tr = _Inline(defs)
    new_body = []
    for st in fn.body:
        new_body.append(tr.visit(st))
    fn.body = new_body
    _Drop(defs).visit(fn)
    ast.fix_missing_locations(fn)
    return defs
