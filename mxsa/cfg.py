"""E3 - statement-level control-flow graph with exceptional edges.

Node kinds
  entry / exit / raise        the three distinguished nodes (two exits: NORMAL, RAISE)
  stmt                        a simple statement (also `with` header, nested def)
  test                        one short-circuit operand of an if/while/assert-free test
  for                         loop header of a `for` (evaluates the iterator)
  loophead                    no-op join in front of a `while` test
  handler                     entry of an `except` clause
Edge labels
  N normal, T/F outcome of a test (for `for`: T = next item, F = exhausted), X exception.

`finally` blocks are copied per way of entering them (normal completion, exception,
return, break/continue) so that every path is explicit; all copies map back to the same
AST statement, and every query below works on *sets* of nodes.

All path queries are plain reachability with nodes/edges removed; the functions the
rules look at are small, so no dominator tree is needed:
  must_pass(A, b)         every path ENTRY -> b contains a node of A
  always_followed(a, B)   every path from a to EXIT/RAISE contains a node of B
  depends_on(s, t, L)     every path ENTRY -> s takes an L-labelled edge out of t
"""
import ast

from .astutil import FUNC_TYPES, walk_local, norm
from .index import AnalysisError


class Node:
    __slots__ = ("id", "kind", "ast", "owner", "may_raise", "copy")

    def __init__(self, id_, kind, ast_=None, owner=None, may_raise=False, copy=""):
        self.id = id_
        self.kind = kind
        self.ast = ast_
        self.owner = owner if owner is not None else ast_
        self.may_raise = may_raise
        self.copy = copy

    @property
    def line(self):
        return getattr(self.ast, "lineno", 0)

    def text(self):
        if self.ast is None:
            return self.kind.upper()
        return norm(self.ast)

    def __repr__(self):
        return "<%s#%d %s:%s>" % (self.kind, self.id, self.line, self.text()[:50])


_RAISING = (ast.Call, ast.Subscript, ast.Await, ast.Yield, ast.YieldFrom, ast.BinOp,
            ast.Starred)


def _is_projection(n):
    """`node[OBJ]`, `node[KEY]`, `frame[0]`: projection of a tuple held in a local by a
    constant index - the repo's idiom for taking a node apart; cannot raise on a
    well-formed node and is not treated as a crash point."""
    if not isinstance(n, ast.Subscript) or not isinstance(n.value, ast.Name):
        return False
    s = n.slice
    if isinstance(s, ast.Name) and s.id.isupper():
        return True
    if isinstance(s, ast.Constant) and isinstance(s.value, int):
        return True
    return False


# calls that cannot raise (frozen; interpreter primitives only)
NON_RAISING_CALLS = frozenset(["sys.exc_info", "isinstance", "id", "type", "hasattr"])


def expr_may_raise(node):
    if node is None:
        return False
    for n in walk_local(node):
        if isinstance(n, _RAISING):
            if _is_projection(n) and isinstance(n.ctx, ast.Load):
                continue
            if isinstance(n, ast.Call):
                from .astutil import dotted
                if dotted(n.func) in NON_RAISING_CALLS and not any(
                        expr_may_raise(a) for a in n.args):
                    continue
            return True
    return False


class _ExcFrame:
    def __init__(self, kind, handlers=None, catch_all=False, try_node=None):
        self.kind = kind              # 'handlers' | 'finally'
        self.handlers = handlers or []  # node ids of handler entries
        self.catch_all = catch_all
        self.try_node = try_node
        self.copies = {}              # (purpose key) -> entry node id of the finally copy


class CFG:
    def __init__(self, fn):
        self.fn = fn
        self.nodes = []
        self.succ = {}
        self.pred = {}
        self.by_ast = {}
        self.entry = self._new("entry").id
        self.exit = self._new("exit").id
        self.raise_ = self._new("raise").id
        self._contain = None

    # -- construction ------------------------------------------------------
    def _new(self, kind, ast_=None, owner=None, may_raise=False, copy=""):
        n = Node(len(self.nodes), kind, ast_, owner, may_raise, copy)
        self.nodes.append(n)
        self.succ[n.id] = []
        self.pred[n.id] = []
        if ast_ is not None:
            self.by_ast.setdefault(ast_, []).append(n.id)
            if owner is not None and owner is not ast_:
                self.by_ast.setdefault(owner, []).append(n.id)
        return n

    def _edge(self, a, b, label="N"):
        if (b, label) not in self.succ[a]:
            self.succ[a].append((b, label))
            self.pred[b].append((a, label))

    def _join(self, preds, b):
        for a, lab in preds:
            self._edge(a, b, lab)

    # -- lookup ------------------------------------------------------------
    def nodes_of(self, ast_node):
        """CFG nodes created for an AST statement / test operand (all copies)."""
        return list(self.by_ast.get(ast_node, []))

    def node_containing(self, ast_node):
        """CFG nodes whose own expression/statement contains ast_node."""
        if self._contain is None:
            self._contain = {}
            for n in self.nodes:
                if n.ast is None:
                    continue
                if n.kind == "for":
                    roots = [n.ast.iter, n.ast.target]
                elif isinstance(n.ast, (ast.With, ast.AsyncWith)):
                    roots = list(n.ast.items)
                elif isinstance(n.ast, ast.ExceptHandler):
                    roots = [n.ast.type] if n.ast.type else []
                elif isinstance(n.ast, FUNC_TYPES + (ast.ClassDef,)):
                    roots = list(n.ast.decorator_list)
                    self._contain.setdefault(n.ast, []).append(n.id)
                else:
                    roots = [n.ast]
                for r in roots:
                    for sub in walk_local(r):
                        self._contain.setdefault(sub, []).append(n.id)
        return list(self._contain.get(ast_node, []))

    def find(self, pred):
        return [n.id for n in self.nodes if n.ast is not None and pred(n)]

    # -- queries -----------------------------------------------------------
    def reach(self, starts, avoid=(), avoid_edges=(), labels=None, include_starts=True):
        """Nodes reachable from `starts`.  `avoid` nodes are never entered;
        `avoid_edges` is a set of (node, label) whose out-edges are cut; `labels`
        restricts the edge labels that may be followed."""
        avoid = set(avoid)
        avoid_edges = set(avoid_edges)
        seen = set()
        stack = []
        for s in starts:
            if s in avoid:
                continue
            if include_starts:
                seen.add(s)
            stack.append(s)
        expanded = set()
        while stack:
            a = stack.pop()
            if a in expanded:
                continue
            expanded.add(a)
            for b, lab in self.succ[a]:
                if labels is not None and lab not in labels:
                    continue
                if (a, lab) in avoid_edges:
                    continue
                if b in avoid:
                    continue
                if b not in seen:
                    seen.add(b)
                if b not in expanded:
                    stack.append(b)
        return seen

    def must_pass(self, A, b, labels=None):
        """Every path ENTRY -> b passes a node of A (b in A counts as false unless
        another A-node precedes)."""
        A = set(A)
        r = self.reach([self.entry], avoid=A - {b}, labels=labels)
        return b not in r

    def always_followed(self, a, B, exits=None, labels=None):
        """Every path from (after) a to one of `exits` passes a node of B."""
        exits = [self.exit, self.raise_] if exits is None else exits
        r = self.reach([a], avoid=set(B), labels=labels, include_starts=False)
        return not any(e in r for e in exits)

    def path_exists(self, a, b, avoid=(), labels=None):
        r = self.reach([a], avoid=avoid, labels=labels, include_starts=False)
        return b in r

    def depends_on(self, s, t, label):
        """Every path ENTRY -> s leaves test node t through a `label` edge."""
        other = {"T": "F", "F": "T"}[label]
        # cut the label edge: if s is then unreachable, every path used it
        r = self.reach([self.entry], avoid_edges={(t, label)})
        return s not in r

    def reachable(self, b):
        return b in self.reach([self.entry])

    def find_path(self, a, b, avoid=(), labels=None):
        """A shortest path a -> b as list of node ids (for reports), or None."""
        avoid = set(avoid)
        from collections import deque
        prev = {a: None}
        dq = deque([a])
        while dq:
            x = dq.popleft()
            for y, lab in self.succ[x]:
                if labels is not None and lab not in labels:
                    continue
                if y in avoid or y in prev:
                    continue
                prev[y] = x
                if y == b:
                    out = [y]
                    while prev[out[-1]] is not None:
                        out.append(prev[out[-1]])
                    return list(reversed(out))
                dq.append(y)
        return None

    def describe_path(self, path):
        return " -> ".join("%s@%d" % (self.nodes[i].text()[:40], self.nodes[i].line)
                           for i in path)

    def dump(self):
        out = []
        for n in self.nodes:
            out.append("%3d %-8s L%-4d %s%s -> %s" % (
                n.id, n.kind, n.line, n.text()[:60], "  [%s]" % n.copy if n.copy else "",
                ", ".join("%d%s" % (b, l) for b, l in self.succ[n.id])))
        return "\n".join(out)


class _Builder:
    def __init__(self, fn):
        self.cfg = CFG(fn)
        self.copy = ""      # label of the finally-copy being emitted

    def build(self):
        c = self.cfg
        ctx = _Ctx(frames=[], loops=[])
        out = self.block(c.fn.body, [(c.entry, "N")], ctx)
        c._join(out, c.exit)
        return c

    # ---- exception routing -------------------------------------------
    def route_exc(self, nid, ctx):
        c = self.cfg
        frames = ctx.frames
        for i, fr in enumerate(frames):
            if fr.kind == "handlers":
                for h in fr.handlers:
                    c._edge(nid, h, "X")
                if fr.catch_all:
                    return
            else:   # finally: exceptional copy, then continue outward from its end
                key = ("exc",)
                if key not in fr.copies:
                    entry = c._new("stmt", None, None, False, "finally-exc")
                    entry.kind = "join"
                    fr.copies[key] = entry.id
                    octx = _Ctx(frames=frames[i + 1:], loops=ctx.loops_outside(fr))
                    saved = self.copy
                    self.copy = "exc"
                    outs = self.block(fr.try_node.finalbody, [(entry.id, "N")], octx)
                    self.copy = saved
                    # after the finally body the exception continues outward
                    for a, lab in outs:
                        j = c._new("stmt", None, None, False, "reraise")
                        j.kind = "join"
                        c._edge(a, j.id, lab)
                        self.route_exc(j.id, octx)
                c._edge(nid, fr.copies[key], "X")
                return
        c._edge(nid, c.raise_, "X")

    def route_jump(self, nid, ctx, kind, loop=None):
        """return / break / continue through the enclosing finally blocks."""
        c = self.cfg
        frames = ctx.frames
        cur = [(nid, "N")]
        for i, fr in enumerate(frames):
            if fr.kind != "finally":
                continue
            if kind != "return" and loop is not None and not _inside(fr.try_node, loop.node):
                break   # the try encloses the loop: jump does not leave it
            octx = _Ctx(frames=frames[i + 1:], loops=ctx.loops_outside(fr))
            saved = self.copy
            self.copy = kind
            cur = self.block(fr.try_node.finalbody, cur, octx)
            self.copy = saved
        if kind == "return":
            c._join(cur, c.exit)
        elif kind == "break":
            loop.breaks.extend(cur)
        else:
            c._join(cur, loop.head)

    # ---- blocks ------------------------------------------------------------
    def block(self, stmts, preds, ctx):
        for s in stmts:
            if not preds:
                # unreachable code after return/raise: still emit so that lookups work
                pass
            preds = self.stmt(s, preds, ctx)
        return preds

    def simple(self, s, preds, ctx, may_raise=None, kind="stmt"):
        c = self.cfg
        mr = expr_may_raise(s) if may_raise is None else may_raise
        n = c._new(kind, s, None, mr, self.copy)
        c._join(preds, n.id)
        if mr:
            self.route_exc(n.id, ctx)
        return n

    def cond(self, expr, preds, ctx, owner):
        """Short-circuit aware test.  Returns (true_out, false_out)."""
        c = self.cfg
        if isinstance(expr, ast.BoolOp):
            if isinstance(expr.op, ast.And):
                falses = []
                cur = preds
                for v in expr.values:
                    t, f = self.cond(v, cur, ctx, owner)
                    falses.extend(f)
                    cur = t
                return cur, falses
            else:
                trues = []
                cur = preds
                for v in expr.values:
                    t, f = self.cond(v, cur, ctx, owner)
                    trues.extend(t)
                    cur = f
                return trues, cur
        if isinstance(expr, ast.UnaryOp) and isinstance(expr.op, ast.Not):
            t, f = self.cond(expr.operand, preds, ctx, owner)
            return f, t
        if isinstance(expr, ast.Constant):
            # `while True:` / `if False:` - only the feasible edge exists
            n = c._new("test", expr, owner, False, self.copy)
            c._join(preds, n.id)
            return ([(n.id, "T")], []) if expr.value else ([], [(n.id, "F")])
        mr = expr_may_raise(expr)
        n = c._new("test", expr, owner, mr, self.copy)
        c._join(preds, n.id)
        if mr:
            self.route_exc(n.id, ctx)
        return [(n.id, "T")], [(n.id, "F")]

    def stmt(self, s, preds, ctx):
        c = self.cfg
        if isinstance(s, ast.If):
            t, f = self.cond(s.test, preds, ctx, s)
            out = self.block(s.body, t, ctx)
            out2 = self.block(s.orelse, f, ctx) if s.orelse else f
            return out + out2
        if isinstance(s, ast.While):
            head = c._new("loophead", None, None, False, self.copy)
            head.ast = None
            c.by_ast.setdefault(s, []).append(head.id)
            c._join(preds, head.id)
            lp = _Loop(s, head.id)
            t, f = self.cond(s.test, [(head.id, "N")], ctx, s)
            ctx2 = ctx.with_loop(lp)
            out = self.block(s.body, t, ctx2)
            c._join(out, head.id)
            after = self.block(s.orelse, f, ctx) if s.orelse else f
            return after + lp.breaks
        if isinstance(s, (ast.For, ast.AsyncFor)):
            mr = True   # iterating may raise
            n = c._new("for", s, None, mr, self.copy)
            c._join(preds, n.id)
            self.route_exc(n.id, ctx)
            lp = _Loop(s, n.id)
            ctx2 = ctx.with_loop(lp)
            out = self.block(s.body, [(n.id, "T")], ctx2)
            c._join(out, n.id)
            f = [(n.id, "F")]
            after = self.block(s.orelse, f, ctx) if s.orelse else f
            return after + lp.breaks
        if isinstance(s, (ast.With, ast.AsyncWith)):
            n = self.simple(s, preds, ctx, may_raise=True)
            return self.block(s.body, [(n.id, "N")], ctx)
        if isinstance(s, ast.Try) or (hasattr(ast, "TryStar") and isinstance(s, ast.TryStar)):
            return self.try_(s, preds, ctx)
        if isinstance(s, ast.Return):
            n = self.simple(s, preds, ctx)
            self.route_jump(n.id, ctx, "return")
            return []
        if isinstance(s, ast.Raise):
            n = c._new("stmt", s, None, True, self.copy)
            c._join(preds, n.id)
            self.route_exc(n.id, ctx)
            return []
        if isinstance(s, ast.Break):
            n = self.simple(s, preds, ctx, may_raise=False)
            if not ctx.loops:
                raise AnalysisError("break outside loop")
            self.route_jump(n.id, ctx, "break", ctx.loops[-1])
            return []
        if isinstance(s, ast.Continue):
            n = self.simple(s, preds, ctx, may_raise=False)
            if not ctx.loops:
                raise AnalysisError("continue outside loop")
            self.route_jump(n.id, ctx, "continue", ctx.loops[-1])
            return []
        if isinstance(s, ast.Assert):
            n = self.simple(s, preds, ctx, may_raise=True)
            return [(n.id, "N")]
        if isinstance(s, FUNC_TYPES + (ast.ClassDef,)):
            n = self.simple(s, preds, ctx, may_raise=False)
            return [(n.id, "N")]
        if hasattr(ast, "Match") and isinstance(s, ast.Match):
            raise AnalysisError("match statement not supported by the CFG builder")
        # every other simple statement
        n = self.simple(s, preds, ctx)
        return [(n.id, "N")]

    def try_(self, s, preds, ctx):
        c = self.cfg
        frames_outer = list(ctx.frames)
        fin = _ExcFrame("finally", try_node=s) if s.finalbody else None
        after_frames = ([fin] if fin else []) + frames_outer
        # handler entries first (so body statements can point at them)
        hentries = []
        catch_all = False
        for h in s.handlers:
            hn = c._new("handler", h, None, False, self.copy)
            hentries.append(hn)
            if h.type is None:
                catch_all = True
            else:
                names = [h.type] if not isinstance(h.type, ast.Tuple) else list(h.type.elts)
                for t in names:
                    if isinstance(t, ast.Name) and t.id == "BaseException":
                        catch_all = True
        body_frames = ([_ExcFrame("handlers", [h.id for h in hentries], catch_all, s)]
                       if hentries else []) + after_frames
        body_ctx = _Ctx(body_frames, ctx.loops)
        rest_ctx = _Ctx(after_frames, ctx.loops)
        out = self.block(s.body, preds, body_ctx)
        if s.orelse:
            out = self.block(s.orelse, out, rest_ctx)
        outs = list(out)
        for h, hn in zip(s.handlers, hentries):
            outs.extend(self.block(h.body, [(hn.id, "N")], rest_ctx))
        if s.finalbody:
            saved = self.copy
            self.copy = (saved + "+" if saved else "") + "normal"
            outs = self.block(s.finalbody, outs, ctx)
            self.copy = saved
        return outs


class _Loop:
    def __init__(self, node, head):
        self.node = node
        self.head = head
        self.breaks = []


class _Ctx:
    def __init__(self, frames, loops):
        self.frames = frames
        self.loops = loops

    def with_loop(self, lp):
        return _Ctx(self.frames, self.loops + [lp])

    def loops_outside(self, frame):
        """Loops that enclose the try statement of `frame`."""
        return [l for l in self.loops if _inside(frame.try_node, l.node)]


def _inside(inner, outer):
    for n in ast.walk(outer):
        if n is inner:
            return True
    return False


def build_cfg(fn):
    return _Builder(fn).build()
