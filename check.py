#!/venv/bin/python
"""Entry point:  check.py <property id> [--tier quick|thorough] [--replay FILE] [--repo DIR]

exit 0  property held on everything analysed (KNOWN-FINDING lines possible)
exit 1  VIOLATION property=<id> replay=<path>
exit 2  ANALYSIS-ERROR (anchor vanished, instance floor not met, internal error, undetected mutant)
"""
import argparse
import json
import os
import sys
import traceback

sys.path.insert(0, os.path.dirname(os.path.abspath(__file__)))


def main(argv=None):
    ap = argparse.ArgumentParser()
    ap.add_argument("prop")
    ap.add_argument("--tier", default=os.environ.get("VERIF_TIER", "quick"),
                    choices=["quick", "thorough"])
    ap.add_argument("--replay")
    ap.add_argument("--repo", default=os.environ.get("MXSA_REPO", "/repo"))
    ap.add_argument("--no-write", action="store_true")
    a = ap.parse_args(argv)
    os.environ["MXSA_REPO"] = a.repo
    seed = int(os.environ.get("VERIF_SEED", "0") or 0)
    try:
        from mxsa import rules
        from mxsa.framework import run_property, Ctx, run_rules, BY_PROP
        mods = rules.load()
        if a.prop not in mods:
            print("ANALYSIS-ERROR property=%s no rules registered" % a.prop)
            return 2
        meta = getattr(mods[a.prop], "META", {})
        if a.replay:
            with open(a.replay) as f:
                rep = json.load(f)
            ctx = Ctx(tier=a.tier)
            wanted = {(v["rule"], v["construct"], v["stmt"]) for v in rep["violations"]}
            results, errors = run_rules(ctx, a.prop)
            hit = 0
            for r in results:
                for fnd in r.findings:
                    if fnd.key in wanted:
                        hit += 1
                        print("REPRODUCED " + fnd.line())
            for e in errors:
                print("ANALYSIS-ERROR " + e)
            print("replayed %d/%d violation(s) on the current tree" % (hit, len(wanted)))
            return 1 if hit else (2 if errors else 0)
        extra = None
        if a.tier == "thorough":
            from mxsa import selftest
            extra = lambda ctx: selftest.run_for(a.prop, ctx)
        return run_property(a.prop, tier=a.tier, seed=seed, meta=meta,
                            write=not a.no_write, extra=extra)
    except Exception:
        print("ANALYSIS-ERROR property=%s internal error" % a.prop)
        traceback.print_exc()
        return 2


class _SafeOut:
    """stdout that survives a closed pipe (`| head`): the verdict is the exit code."""

    def __init__(self, f):
        self.f, self.dead = f, False

    def write(self, s):
        if not self.dead:
            try:
                self.f.write(s)
            except BrokenPipeError:
                self.dead = True
        return len(s)

    def flush(self):
        if not self.dead:
            try:
                self.f.flush()
            except BrokenPipeError:
                self.dead = True


if __name__ == "__main__":
    sys.stdout = _SafeOut(sys.stdout)
    rc = main()
    sys.stdout.flush()
    try:
        sys.stderr.close()
    except Exception:
        pass
    os._exit(rc)
